#!/bin/bash
# Run the pinned suite and compare with BASELINE.json stable_pass.
cd /repo && env -u PANQEC_VERIF /venv/bin/python -m pytest -q -p no:cacheprovider --timeout=900 --continue-on-collection-errors -n 12 --junitxml=/tmp/suite.junit.xml > /tmp/suite.out 2>&1
tail -3 /tmp/suite.out
/venv/bin/python - <<'PY'
import json, xml.etree.ElementTree as ET
b=json.load(open('/root/.vp/BASELINE.json'))
sp=set(b['stable_pass'])
passed=set()
for tc in ET.parse('/tmp/suite.junit.xml').getroot().iter('testcase'):
    ok = not any(c.tag in ('failure','error','skipped') for c in tc)
    if ok: passed.add(f"{tc.get('classname')}::{tc.get('name')}")
missing = sorted(sp-passed)
print('baseline stable_pass', len(sp), 'now passing of those', len(sp&passed), 'MISSING', len(missing))
for m in missing[:20]: print('  ', m)
print('newly passing (were failing):', sorted(passed-sp)[:20])
PY
