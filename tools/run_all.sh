#!/bin/bash
# tools/run_all.sh [tier] [seeds...]: run every registered check (or those named in ONLY="C01 C02"), report exit codes
tier="${1:-quick}"; shift
seeds="${@:-1}"
bad=0
cd "$(dirname "$0")/.."
[ -d .deps ] || ./setup.sh >/dev/null 2>&1
for seed in $seeds; do
  for id in ${ONLY:-$(python3 -c "import json;print(' '.join(c['property_id'] for c in json.load(open('MANIFEST.json'))['checks']))")}; do
    start=$(date +%s)
    VERIF_SEED=$seed ./check $id --tier $tier > /tmp/run_all_$id.log 2>&1
    rc=$?
    echo "seed=$seed $id exit=$rc $(( $(date +%s) - start ))s $(grep -E 'tier=' /tmp/run_all_$id.log | cut -c1-150)"
    if [ $rc -ne 0 ]; then bad=1; grep -E "VIOLATION|HARNESS" /tmp/run_all_$id.log | head -5; fi
  done
done
exit $bad
