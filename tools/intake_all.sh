#!/bin/bash
# tools/intake_all.sh <seed-root> <prefix>: file every finished, not yet filed seed worktree
root="$1"; prefix="$2"
for d in "$root"/C??; do
  [ -f "$d/SEED_PATCH.diff" ] && [ -f "$d/SEED_NOTES.md" ] || continue
  id=$(basename "$d")
  name="${prefix}${id#C}"
  ls -d /verif/seeded/${name}_* >/dev/null 2>&1 && continue
  slug=$(grep -m1 '^+++ b/' "$d/SEED_PATCH.diff" | sed 's#.*/##; s/\.py$//; s/^_//' | tr -c 'a-zA-Z0-9\n' '_' | cut -c1-24)
  /venv/bin/python /verif/tools/seed_intake.py "${name}_${slug}" "$id" "$d" 2>&1 | grep -v conda | tail -2 | cut -c1-260
done
