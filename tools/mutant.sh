#!/bin/bash
# tools/mutant.sh <patch.diff> <Cnn> [Cnn...]  [-- extra ./check args]
# Apply a patch to a scratch copy of /repo (outside /repo and /verif), run the
# given checks against it, print their verdicts, remove the copy.
patch="$(realpath "$1")"; shift
tier="${MUT_TIER:-quick}"
work="$(mktemp -d /tmp/mut_XXXXXX)"
trap 'rm -rf "$work"' EXIT
mkdir -p "$work/repo" "$work/out"
git -C /repo archive HEAD | tar -x -C "$work/repo"
# include uncommitted working-tree state of /repo as well
(cd /repo && git diff HEAD) | (cd "$work/repo" && git apply --allow-empty 2>/dev/null)
(cd "$work/repo" && git apply "$patch") || { echo "PATCH DOES NOT APPLY: $patch"; exit 3; }
for id in "$@"; do
  VERIF_REPO="$work/repo" VERIF_OUT="$work/out" VERIF_SCRATCH="$work/scratch" \
    /verif/check "$id" --tier "$tier" > "$work/out/$id.log" 2>&1
  rc=$?
  echo "== $(basename "$patch") $id exit=$rc"
  grep -E "VIOLATION|HARNESS-ERROR|KNOWN-FINDING|tier=" "$work/out/$id.log" | cut -c1-300 | head -8
done
