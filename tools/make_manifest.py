#!/usr/bin/env python3
"""Regenerate MANIFEST.json from checks/*.py (each module carries its own
MANIFEST_ENTRY dict) so that the manifest always lists exactly the checks
that exist.  Properties without a check module go under not_applicable with
the reason given in NOT_CLAIMED below."""
import ast
import json
import os
import subprocess
import sys

VERIF = os.path.dirname(os.path.dirname(os.path.abspath(__file__)))

NOT_CLAIMED = {}   # property id -> reason (filled if a check is withdrawn)

NOT_BUILT_YET = 'check not built yet (in progress; see DESIGN.md section 3a)'


def module_meta(path):
    tree = ast.parse(open(path).read())
    meta = {}
    for node in tree.body:
        if isinstance(node, ast.Assign) and len(node.targets) == 1:
            name = getattr(node.targets[0], 'id', None)
            if name in ('PROPERTY', 'LEVEL', 'MANIFEST_ENTRY'):
                meta[name] = ast.literal_eval(node.value)
    return meta


def main():
    props = [json.loads(l) for l in open(os.path.join(VERIF, 'properties.jsonl'))]
    checks = []
    have = set()
    for name in sorted(os.listdir(os.path.join(VERIF, 'checks'))):
        if not (name.startswith('c') and name.endswith('.py')):
            continue
        meta = module_meta(os.path.join(VERIF, 'checks', name))
        if 'PROPERTY' not in meta or 'MANIFEST_ENTRY' not in meta:
            continue
        pid = meta['PROPERTY']
        e = meta['MANIFEST_ENTRY']
        have.add(pid)
        checks.append({
            'property_id': pid,
            'quick_cmd': f'./check {pid} --tier quick',
            'thorough_cmd': f'./check {pid} --tier thorough',
            'evidence_file': f'/verif/evidence/{pid}.json',
            'replay_cmd_template': f'./check {pid} --replay {{path}}',
            'engine': 'vf',
            'level_claimed': {
                'category': meta.get('LEVEL', 'exploration'),
                'text': e['level_text'],
                'design_ref': f'DESIGN.md section 2, {pid}',
            },
            'level_note': e['level_note'],
            'technique': e['technique'],
        })
    try:
        hooks = subprocess.run(
            ['git', '-C', '/repo', 'log', '--format=%H', '--grep=^hook:'],
            capture_output=True, text=True).stdout.split()
    except Exception:
        hooks = []
    manifest = {
        'version': 1,
        'setup_cmd': './setup.sh',
        'hooks': {
            'guard': 'PANQEC_VERIF',
            'enable': 'no instrumentation is compiled into panqec: every '
                      'check observes public attributes or wraps bound '
                      'methods from the harness process; ./check exports '
                      'PANQEC_VERIF=1 for uniformity only',
            'baseline_off_cmd': 'cd /repo && env -u PANQEC_VERIF /venv/bin/python '
                                '-m pytest -ra -q -p no:cacheprovider --timeout=900 '
                                '--continue-on-collection-errors',
            'source_commits': hooks,
            'add_only': True,
        },
        'engines': [{
            'name': 'vf',
            'path': 'vf/runner.py',
            'serves_properties': sorted(have),
            'kind_free_text': 'Hypothesis (random + stateful) and exhaustive '
                              'enumeration of small finite domains sharded over 16 '
                              'processes, against independent oracles (own GF(2) '
                              'algebra, reference models, round trips, metamorphic '
                              'relations); shrunk failures are JSON replay files',
        }],
        'checks': checks,
        'notes': 'Known findings and fixed defects: known_findings.json. '
                 'Seeded breakages used to measure sensitivity: seeded/. '
                 'Exit 2 = harness error / inconclusive, never a violation.',
        'not_applicable': [
            {'property_id': p['id'],
             'reason': NOT_CLAIMED.get(p['id'], NOT_BUILT_YET)}
            for p in props if p['id'] not in have
        ],
    }
    with open(os.path.join(VERIF, 'MANIFEST.json'), 'w') as f:
        json.dump(manifest, f, indent=1)
    try:
        import jsonschema
        jsonschema.validate(manifest, json.load(open('/root/.vp/MANIFEST.schema.json')))
        for c in checks:
            p = os.path.join(VERIF, 'evidence', c['property_id'] + '.json')
            if os.path.exists(p):
                jsonschema.validate(json.load(open(p)),
                                    json.load(open('/root/.vp/EVIDENCE.schema.json')))
        print('manifest valid;', len(checks), 'checks;',
              len(manifest['not_applicable']), 'not claimed')
    except ImportError:
        print('jsonschema missing; manifest written unvalidated')


if __name__ == '__main__':
    sys.exit(main())
