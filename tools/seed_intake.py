#!/usr/bin/env python3
"""tools/seed_intake.py <seed-name> <property-id> <worktree-dir> [extra check ids...]

Confirm a sub-agent's seeded change independently and file it under
/verif/seeded/<seed-name>/:
  - the patch applies to a clean copy of /repo HEAD,
  - the demonstration passes without it and fails with it,
  - the pinned test suite still passes with it (compared with BASELINE.json),
  - then run our quick check(s) against the patched copy and record whether
    they catch it.
Everything runs in a scratch copy under /tmp that is removed afterwards.
"""
import json
import os
import shutil
import subprocess
import sys
import tempfile
import xml.etree.ElementTree as ET

VERIF = os.path.dirname(os.path.dirname(os.path.abspath(__file__)))
PY = '/venv/bin/python'


def sh(cmd, cwd=None, env=None, timeout=3600):
    p = subprocess.run(cmd, shell=True, cwd=cwd, env=env, capture_output=True,
                       text=True, timeout=timeout)
    return p.returncode, (p.stdout + p.stderr)


def main():
    name, prop, wt = sys.argv[1:4]
    checks = [prop] + sys.argv[4:]
    tier = os.environ.get('SEED_TIER', 'quick')
    dest = os.path.join(VERIF, 'seeded', name)
    os.makedirs(dest, exist_ok=True)
    for src, dst in (('SEED_PATCH.diff', 'patch.diff'), ('SEED_DEMO.py', 'demo.py'),
                     ('SEED_NOTES.md', 'notes.md')):
        if wt == '-':       # re-check an already filed seed
            break
        p = os.path.join(wt, src)
        if os.path.exists(p):
            shutil.copy(p, os.path.join(dest, dst))
    patch = os.path.join(dest, 'patch.diff')
    if not os.path.exists(patch):
        rc, out = sh('git diff -- panqec', cwd=wt)
        open(patch, 'w').write(out)
    work = tempfile.mkdtemp(prefix='intake_', dir='/tmp')
    meta = {'seed': name, 'property': prop, 'ran': []}
    old_meta = {}
    if os.path.exists(os.path.join(dest, 'meta.json')):
        old_meta = json.load(open(os.path.join(dest, 'meta.json')))
    try:
        repo = os.path.join(work, 'repo')
        os.makedirs(repo)
        sh(f'git -C /repo archive HEAD | tar -x -C {repo}')
        env = dict(os.environ, PYTHONPATH=repo, PYTHONHASHSEED='0')
        env.pop('PANQEC_VERIF', None)
        shutil.copy(os.path.join(dest, 'demo.py'), os.path.join(repo, 'SEED_DEMO.py'))
        rc0, out0 = sh(f'{PY} SEED_DEMO.py', cwd=repo, env=env, timeout=900)
        meta['demo_without_patch_exit'] = rc0
        rc, out = sh(f'git apply {patch}', cwd=repo)
        meta['patch_applies_to_repo_head'] = (rc == 0)
        if rc != 0:
            # the worktree was cut before our fix commits: try 3-way / fuzz
            rc, out = sh(f'patch -p1 --fuzz=3 < {patch}', cwd=repo)
            meta['patch_applies_with_fuzz'] = (rc == 0)
            if rc != 0:
                meta['error'] = 'patch does not apply: ' + out[-500:]
                raise SystemExit
            rcx, outx = sh('git diff --no-index /dev/null /dev/null')  # noop
        rc1, out1 = sh(f'{PY} SEED_DEMO.py', cwd=repo, env=env, timeout=900)
        meta['demo_with_patch_exit'] = rc1
        meta['demo_with_patch_tail'] = out1[-400:]
        junit = os.path.join(work, 'junit.xml')
        rct, outt = sh(f'{PY} -m pytest -q -p no:cacheprovider --timeout=900 -n 12 '
                       f'--continue-on-collection-errors --junitxml={junit}',
                       cwd=repo, env=env, timeout=3000)
        base = set(json.load(open('/root/.vp/BASELINE.json'))['stable_pass'])
        passed = set()
        if os.path.exists(junit):
            for tc in ET.parse(junit).getroot().iter('testcase'):
                if not any(c.tag in ('failure', 'error', 'skipped') for c in tc):
                    passed.add(f"{tc.get('classname')}::{tc.get('name')}")
        meta['suite_tail'] = outt.strip().splitlines()[-1] if outt.strip() else ''
        meta['baseline_tests_missing_with_patch'] = sorted(base - passed)[:10]
        meta['suite_ok'] = not (base - passed)
        meta['ran'].append(f'pytest -n 12 tests (in scratch copy with patch): {meta["suite_tail"]}')
        meta['checks'] = {}
        for cid in checks:
            env2 = dict(os.environ, VERIF_REPO=repo, VERIF_OUT=os.path.join(work, 'out'),
                        VERIF_SCRATCH=os.path.join(work, 'scratch'))
            rcc, outc = sh(f'{VERIF}/check {cid} --tier {tier}', env=env2, timeout=7200)
            lines = [l for l in outc.splitlines() if 'VIOLATION' in l or 'tier=' in l
                     or 'HARNESS' in l]
            rel = [l.strip()[:300] for l in outc.splitlines()
                   if l.startswith('  ') and ':' in l][:3]
            meta['checks'][cid] = {'tier': tier, 'exit': rcc, 'caught': rcc == 1,
                                   'summary': lines[:4], 'first_relations': rel}
            meta['ran'].append(f'VERIF_REPO=<scratch copy with patch> ./check {cid} --tier {tier} -> exit {rcc}')
    except SystemExit:
        pass
    finally:
        shutil.rmtree(work, ignore_errors=True)
    notes = os.path.join(dest, 'notes.md')
    meta['needs_to_manifest'] = open(notes).read()[:1500] if os.path.exists(notes) else ''
    meta['confirmed'] = bool(meta.get('demo_without_patch_exit') == 0 and
                             meta.get('demo_with_patch_exit', 0) != 0 and meta.get('suite_ok'))
    if old_meta.get('checks'):
        # keep the history: what the checks did before they were strengthened
        hist = old_meta.get('earlier_results', [])
        hist.append({cid: {'caught': r['caught'], 'exit': r['exit']}
                     for cid, r in old_meta['checks'].items()})
        meta['earlier_results'] = hist
    json.dump(meta, open(os.path.join(dest, 'meta.json'), 'w'), indent=1)
    print(json.dumps({k: meta.get(k) for k in ('seed', 'confirmed', 'demo_without_patch_exit',
                                                'demo_with_patch_exit', 'suite_ok',
                                                'patch_applies_to_repo_head', 'error')}))
    for cid, r in meta.get('checks', {}).items():
        print(cid, 'caught' if r['caught'] else f"NOT CAUGHT (exit {r['exit']})", r['summary'][:2], r['first_relations'][:1])


if __name__ == '__main__':
    main()
