#!/usr/bin/env python3
"""tools/mkmut.py <name> <repo-relative file> <old> <new> [count]
Write tools/mutants/<name>.diff replacing the first (or count-th) occurrence
of <old> by <new> in the file (relative to /repo HEAD working tree)."""
import difflib, sys, os
name, rel, old, new = sys.argv[1:5]
nth = int(sys.argv[5]) if len(sys.argv) > 5 else 1
old = old.encode().decode('unicode_escape'); new = new.encode().decode('unicode_escape')
src = open(os.path.join('/repo', rel)).read()
idx = -1
for _ in range(nth):
    idx = src.index(old, idx + 1)
dst = src[:idx] + new + src[idx + len(old):]
diff = ''.join(difflib.unified_diff(src.splitlines(True), dst.splitlines(True),
                                    'a/' + rel, 'b/' + rel))
out = os.path.join(os.path.dirname(os.path.abspath(__file__)), 'mutants', name + '.diff')
mode = 'a' if os.environ.get('APPEND') else 'w'
open(out, mode).write(diff)
print(out, len(diff.splitlines()), 'lines')
