#!/bin/bash
# Offline setup: make sure hypothesis (and atheris for the thorough C03
# fuzz target) are importable; install from the local wheelhouse if not.
here="$(cd "$(dirname "${BASH_SOURCE[0]}")" && pwd)"
cd "$here" || exit 2
mkdir -p .deps .scratch evidence
export PIP_NO_INDEX=1
/venv/bin/python -c "import hypothesis" 2>/dev/null || \
  /venv/bin/pip install --no-index --find-links /opt/veriftools/wheels --target .deps hypothesis || exit 1
/venv/bin/python -c "import sys; sys.path.insert(0,'.deps'); import atheris" 2>/dev/null || \
  /venv/bin/pip install --no-index --no-deps --find-links /opt/veriftools/wheels --target .deps atheris >/dev/null 2>&1 || \
  echo "note: atheris not installable; thorough C03 fuzz target will be skipped"
/venv/bin/python -c "import sys; sys.path.insert(0,'/repo'); import panqec, hypothesis; print('setup ok', hypothesis.__version__)"
