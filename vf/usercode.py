"""User-defined StabilizerCode subclasses built from plain data (the
advertised coordinate API), and random Clifford-scrambled stabilizer codes
with known logical operators."""
from hypothesis import strategies as st


def make_user_code(spec):
    """spec: {'dim', 'qubits': [[..]], 'stabs': [[..]],
    'stab_ops': [[[qubit_idx, 'X'|'Y'|'Z'], ...], ...],
    'logicals_x': [...same form...], 'logicals_z': [...]}"""
    from panqec.codes import StabilizerCode
    # "any coordinate system": plain ints, numpy ints, or an undoubled
    # lattice with half-integer positions (floats)
    style = spec.get('coord_style', 'int')
    if style == 'half':
        conv = lambda c: tuple(v / 2 for v in c)                 # noqa: E731
    elif style == 'npint':
        import numpy as np
        conv = lambda c: tuple(np.int64(v) for v in c)           # noqa: E731
    else:
        conv = tuple
    qubits = [conv(q) for q in spec['qubits']]
    stabs = [conv(s) for s in spec['stabs']]
    ops = {tuple(s): {qubits[i]: p for i, p in op}
           for s, op in zip(stabs, spec['stab_ops'])}
    lx = [{qubits[i]: p for i, p in op} for op in spec['logicals_x']]
    lz = [{qubits[i]: p for i, p in op} for op in spec['logicals_z']]
    dim = spec['dim']
    # a code that keeps its operators in tables and hands them out as they
    # are (no copy per call), and that offers a deformation of its own
    stored = bool(spec.get('stored_dicts'))
    had = {qubits[i] for i in spec.get('hadamard_on', [])}

    class UserCode(StabilizerCode):
        dimension = dim
        label = 'user'
        deformation_names = ['XZZX'] if spec.get('deformable') else []

        def get_deformation(self, location, deformation_name, **kwargs):
            if deformation_name != 'XZZX':
                raise ValueError(deformation_name)
            if tuple(location) in had:
                return {'X': 'Z', 'Y': 'Y', 'Z': 'X'}
            return {'X': 'X', 'Y': 'Y', 'Z': 'Z'}

        def get_qubit_coordinates(self):
            return list(qubits)

        def get_stabilizer_coordinates(self):
            return list(stabs)

        def qubit_axis(self, location):
            return 'x'

        def stabilizer_type(self, location):
            return 'generic'

        def get_stabilizer(self, location):
            return ops[tuple(location)] if stored else dict(ops[tuple(location)])

        def get_logicals_x(self):
            return lx if stored else [dict(o) for o in lx]

        def get_logicals_z(self):
            return lz if stored else [dict(o) for o in lz]

    code = UserCode(2)
    if spec.get('deformable') and spec.get('deform_now'):
        code.deform('XZZX')
    return code


def _conj(paulis, gate):
    """Conjugate a list of [x_bits, z_bits] (lists of 0/1) by a gate."""
    kind = gate[0]
    for x, z in paulis:
        if kind == 'H':
            i = gate[1]
            x[i], z[i] = z[i], x[i]
        elif kind == 'S':
            i = gate[1]
            z[i] ^= x[i]
        elif kind == 'CX':
            c, t = gate[1], gate[2]
            x[t] ^= x[c]
            z[c] ^= z[t]


def scrambled_spec(n, m, circuit, redundant=()):
    """[[n, n-m]] code: start from stabilizers Z_1..Z_m, logicals X_j / Z_j for
    j > m, conjugate everything by `circuit`.  `redundant` lists pairs (a,b):
    an extra generator equal to the product of generators a and b is appended
    (rank is unchanged, the generating set is over-complete as in the toric
    codes)."""
    def unit(kind, i):
        x, z = [0] * n, [0] * n
        (x if kind == 'X' else z)[i] = 1
        return [x, z]
    stabs = [unit('Z', i) for i in range(m)]
    lxs = [unit('X', j) for j in range(m, n)]
    lzs = [unit('Z', j) for j in range(m, n)]
    allp = stabs + lxs + lzs
    for g in circuit:
        _conj(allp, g)
    for a, b in redundant:
        if a < m and b < m and a != b:
            stabs.append([[p ^ q for p, q in zip(stabs[a][0], stabs[b][0])],
                          [p ^ q for p, q in zip(stabs[a][1], stabs[b][1])]])

    def as_op(p):
        x, z = p
        return [[i, 'XZY'[x[i] + 2 * z[i] - 1]] for i in range(n) if x[i] or z[i]]
    return {
        'kind': 'scrambled', 'dim': 2,
        'qubits': [[2 * i + 1, 0] for i in range(n)],
        'stabs': [[2 * j, 1] for j in range(len(stabs))],
        'stab_ops': [as_op(p) for p in stabs],
        'logicals_x': [as_op(p) for p in lxs],
        'logicals_z': [as_op(p) for p in lzs],
        'n': n, 'm': m,
    }


@st.composite
def scrambled_specs(draw, min_n=2, max_n=6, redundant=True):
    n = draw(st.integers(min_n, max_n))
    m = draw(st.integers(1, n - 1))
    gates = []
    for _ in range(draw(st.integers(0, 4 * n))):
        k = draw(st.sampled_from(['H', 'S', 'CX']))
        if k == 'CX':
            c = draw(st.integers(0, n - 1))
            t = draw(st.integers(0, n - 2))
            if t >= c:
                t += 1
            gates.append(['CX', c, t])
        else:
            gates.append([k, draw(st.integers(0, n - 1))])
    red = []
    if redundant and m >= 2 and draw(st.booleans()):
        a = draw(st.integers(0, m - 1))
        b = draw(st.integers(0, m - 2))
        if b >= a:
            b += 1
        red.append((a, b))
    return scrambled_spec(n, m, gates, red)
