"""Shared decoder domain for C05 / C06 / C09 / C11."""
import itertools

import numpy as np
from hypothesis import strategies as st

from vf import domain, gf2, usercode

COMPLETE = ('MatchingDecoder', 'UnionFindDecoder', 'BeliefPropagationOSDDecoder')
DETERMINISTIC = ('MatchingDecoder', 'UnionFindDecoder', 'BeliefPropagationOSDDecoder',
                 'MemoryBeliefPropagationDecoder', 'XCubeMatchingDecoder')

# decoder -> (code classes it declares, size bound per class for quick use)
ALLOWED = {
    'MatchingDecoder': ['Toric2DCode', 'Planar2DCode', 'RotatedPlanar2DCode'],
    'UnionFindDecoder': ['Toric2DCode'],
    'SweepMatchDecoder': ['Toric3DCode', 'Planar3DCode'],
    'RotatedSweepMatchDecoder': ['RotatedToric3DCode', 'RotatedPlanar3DCode'],
    'XCubeMatchingDecoder': ['XCubeCode'],
}


def get_decoder_class(name):
    import panqec.decoders as pd
    return getattr(pd, name)


def build(case):
    """case: {'decoder', 'dparams', 'code': code_case | scrambled spec,
    'direction', 'noise_deformation', 'noise_kwargs', 'error_rate'}
    -> (code, error_model, decoder)"""
    from panqec.error_models import PauliErrorModel
    cc = case['code']
    if cc.get('kind') == 'scrambled':
        code = usercode.make_user_code(cc)
    elif case.get('via_registry'):
        from panqec.config import CODES
        code = CODES[cc['cls']](*cc['size'])
        if cc.get('deformation'):
            code.deform(cc['deformation'], **cc.get('kwargs', {}))
    else:
        code = domain.build_from_case(cc)
    em = PauliErrorModel(*case['direction'],
                         deformation_name=case.get('noise_deformation'),
                         deformation_kwargs=dict(case.get('noise_kwargs') or {}))
    dec = make_decoder(case, code, em)
    return code, em, dec


def make_decoder(case, code, em):
    klass = get_decoder_class(case['decoder'])
    # the decoder's prior rate is an argument of its own; callers may keep one
    # decoder (or a deliberately tuned prior) while the physical rate varies
    rate = case.get('decoder_rate')
    if rate is None:
        rate = case['error_rate']
    return klass(code, em, rate, **(case.get('dparams') or {}))


def own_syndrome(H, e):
    """H: dense int64 (m x 2n); e: 1-D binary -> syndrome (own algebra)."""
    n = H.shape[1] // 2
    e = np.asarray(e).astype(np.int64)
    return (H[:, :n] @ e[n:] + H[:, n:] @ e[:n]) % 2


def errors_for(case, code, rng):
    """List of error vectors (uint8) for the batch described by the case."""
    n = code.n
    mode = case['errors']
    out = []
    if mode == 'exhaustive':
        from checks.c04_success_iff_stabilizer import all_errors
        E = all_errors(n, 0, 4 ** n)
        idx = rng.permutation(len(E))      # decode in a scrambled order
        return [E[i] for i in idx]
    if mode == 'syndrome_weights':
        # errors whose syndrome has a prescribed number of defects per sector
        # (around the multiples of 256, where byte-sized counters wrap)
        from vf import gf2
        H = gf2.to_dense(code.stabilizer_matrix)
        for target_w in case['syndrome_weights']:
            for sector in ('x_err', 'z_err'):
                # X errors are seen by the generators with a Z part and vice versa
                cols = slice(n, 2 * n) if sector == 'x_err' else slice(0, n)
                rows = np.nonzero(H[:, cols].sum(axis=1) > 0)[0]
                sub = H[rows][:, cols]
                rr = gf2.rows_to_ints(sub)
                for attempt in range(6):
                    if target_w > len(rows):
                        break
                    pick = rng.choice(len(rows), size=target_w, replace=False)
                    bits = [0] * len(rows)
                    for i in pick:
                        bits[int(i)] = 1
                    x0 = gf2.solve(rr, n, bits)
                    if x0 is None:
                        continue
                    e = np.zeros(2 * n, dtype=np.uint8)
                    part = np.array([(x0 >> q) & 1 for q in range(n)], dtype=np.uint8)
                    if sector == 'x_err':
                        e[:n] = part
                    else:
                        e[n:] = part
                    out.append(e)
                    break
        return out
    if mode == 'weight12':
        out.append(np.zeros(2 * n, dtype=np.uint8))
        singles = []
        for q in range(n):
            for p in 'XYZ':
                e = np.zeros(2 * n, dtype=np.uint8)
                if p in 'XY':
                    e[q] = 1
                if p in 'YZ':
                    e[n + q] = 1
                singles.append(e)
        out += singles
        pairs = list(itertools.combinations(range(len(singles)), 2))
        pairs = [pq for pq in pairs if pq[0] // 3 != pq[1] // 3]
        limit = case.get('n_errors', 300)
        if len(pairs) > limit:
            pick = rng.choice(len(pairs), size=limit, replace=False)
            pairs = [pairs[int(i)] for i in pick]
        out += [(singles[a] + singles[b]) % 2 for a, b in pairs]
        idx = rng.permutation(len(out))
        return [out[i] for i in idx]
    # random i.i.d. errors at several rates, the zero error in between
    rates = case.get('rates', [0.001, 0.01, 0.05, 0.1, 0.2, 0.4])
    for j in range(case.get('n_errors', 60)):
        if j % 17 == 5:
            out.append(np.zeros(2 * n, dtype=np.uint8))
            continue
        p = rates[j % len(rates)]
        out.append(domain.random_bsf(rng, n, max(p, 1.0 / n if j % 3 == 0 else p)))
    return out


# ---------------------------------------------------------------------------
# strategies

RATES = [0.001, 0.01, 0.05, 0.1, 0.2, 0.4]


@st.composite
def noise(draw, code_cls=None, allow_deformed=True):
    r = draw(domain.directions())
    nd, nk = None, {}
    if allow_deformed and code_cls is not None and draw(st.booleans()):
        nd, nk = draw(st.sampled_from(domain.deformations(code_cls)))
    return [float(x) for x in r], nd, nk


def size_pool(cls, max_L, max_L_2d, max_color, max_n):
    allp = [s for s in domain.sizes(cls, max(max_L, 3), max(max_L_2d, 3), max(max_color, 1))
            if not (cls == 'Color666ToricCode' and s[0] != s[1])]
    pool = [s for s in domain.sizes(cls, max_L, max_L_2d, max_color)
            if domain.n_estimate(cls, s) <= max_n and
            not (cls == 'Color666ToricCode' and s[0] != s[1])]
    if not pool:        # smallest member of the family
        pool = [min(allp, key=lambda s: domain.n_estimate(cls, s))]
    return pool


@st.composite
def decoder_cases(draw, decoders=None, max_n=60, n_errors=40):
    name = draw(st.sampled_from(decoders or [
        'MatchingDecoder', 'UnionFindDecoder', 'BeliefPropagationOSDDecoder',
        'BeliefPropagationOSDDecoder', 'SweepMatchDecoder',
        'RotatedSweepMatchDecoder', 'XCubeMatchingDecoder',
        'MemoryBeliefPropagationDecoder']))
    dparams = {}
    via_registry = False
    if name == 'BeliefPropagationOSDDecoder':
        kind = draw(st.sampled_from(['lib', 'lib', 'lib', 'scrambled']))
        if kind == 'scrambled':
            code = draw(usercode.scrambled_specs(min_n=3, max_n=7))
            cls = None
        else:
            cls = draw(st.sampled_from(domain.CODE_CLASSES))
            size = draw(st.sampled_from(size_pool(cls, 3, 4, 2, max_n)))
            dn, dk = draw(st.sampled_from(domain.deformations(cls)))
            code = domain.code_case(cls, size, dn, dk)
        dparams = {'max_bp_iter': draw(st.sampled_from([1, 10, 1000])),
                   'osd_order': draw(st.sampled_from([0, 10])),
                   'channel_update': draw(st.booleans())}
        bm = draw(st.sampled_from([None, None, 'product_sum', 'minimum_sum']))
        if bm is not None:
            dparams['bp_method'] = bm
    elif name == 'MemoryBeliefPropagationDecoder':
        cls = draw(st.sampled_from(['Toric2DCode', 'Planar2DCode', 'RotatedPlanar2DCode',
                                    'RotatedPlanar3DCode', 'Color666PlanarCode']))
        size = draw(st.sampled_from(size_pool(cls, 2, 3, 1, 20)))
        dn, dk = draw(st.sampled_from(domain.deformations(cls)))
        code = domain.code_case(cls, size, dn, dk)
        dparams = {'max_bp_iter': draw(st.sampled_from([1, 2, 3]))}
    else:
        cls = draw(st.sampled_from(ALLOWED[name]))
        if name == 'UnionFindDecoder':
            pool = size_pool(cls, 6, 6, 1, 80)
        elif name == 'MatchingDecoder':
            pool = size_pool(cls, 6, 6, 1, max_n)
        elif name == 'XCubeMatchingDecoder':
            # (planes wrap differently once a side exceeds four)
            pool = size_pool(cls, 6, 6, 1, 160)
        else:
            pool = size_pool(cls, 3, 3, 1, 100)
        size = draw(st.sampled_from(pool))
        code = domain.code_case(cls, size)
        via_registry = draw(st.booleans())
        if name == 'MatchingDecoder':
            et = draw(st.sampled_from([None, None, 'X', 'Z']))
            if et is not None:
                dparams = {'error_type': et}
    r, nd, nk = draw(noise(code_cls=cls))
    # rates above 1/2 are legitimate (prior-sensitive decoders behave very
    # differently there); matching-type decoders need marginals below 1/2
    p = draw(st.sampled_from(RATES + ([0.6, 0.75, 1.0] if name in (
        'BeliefPropagationOSDDecoder', 'MemoryBeliefPropagationDecoder') else [])))
    n_err = n_errors
    if name in ('UnionFindDecoder',):
        n_err = max(6, n_errors // 3)
    if name in ('MemoryBeliefPropagationDecoder',):
        n_err = 3
    if name in ('SweepMatchDecoder', 'RotatedSweepMatchDecoder', 'XCubeMatchingDecoder'):
        n_err = max(6, n_errors // 4)
    return {'decoder': name, 'dparams': dparams, 'code': code,
            'via_registry': via_registry,
            'direction': r, 'noise_deformation': nd, 'noise_kwargs': nk,
            'error_rate': p, 'errors': 'random', 'n_errors': n_err,
            'rseed': draw(st.integers(0, 2**30))}
