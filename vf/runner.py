"""Runner shared by every check.

A check module (checks/cNN_*.py) exposes

    PROPERTY   'C14'
    LEVEL      'exploration' | 'fault_enumeration'
    RULE       text: how cases are generated and what makes one non-trivial
    ASSUMPTIONS  list of str
    def eval_case(case: dict) -> dict     # pure, picklable, JSON in / JSON out
    def run(ctx)                          # drives ctx.run_cases / ctx.run_hypothesis

`eval_case` returns {'fails': [ {relation, detail, sig?}, ... ],
                     'nontrivial': bool, 'labels': [str, ...], 'evals': int}.

Every generated case is a JSON-serialisable dict, so a shrunk failure *is*
its replay file and `./check Cnn --replay f` bypasses all generators.

Exit codes: 0 held; 1 + "VIOLATION property=.. replay=.." unlisted violation;
2 harness error (never reported as a violation).
"""
import contextlib
import hashlib
import importlib
import io
import json
import multiprocessing as mp
import os
import sys
import time
import traceback

VERIF_DIR = os.path.dirname(os.path.dirname(os.path.abspath(__file__)))
# where evidence / new violation replays are written (redirected when the
# checks are pointed at a scratch copy for sensitivity runs)
OUT_DIR = os.environ.get('VERIF_OUT', VERIF_DIR)
REPO = os.path.abspath(os.environ.get('VERIF_REPO', '/repo'))
NPROC = int(os.environ.get('VERIF_NPROC', '16'))


class HarnessError(Exception):
    pass


def setup_repo_import():
    """Import panqec from the working tree (or VERIF_REPO scratch copy)."""
    if REPO not in sys.path[:1]:
        sys.path.insert(0, REPO)
    os.environ.setdefault('PANQEC_DIR', _scratch_dir('panqec_dir'))
    with quiet():
        import panqec  # noqa
    here = os.path.realpath(os.path.dirname(panqec.__file__))
    if not here.startswith(os.path.realpath(REPO) + os.sep):
        raise HarnessError(f'panqec imported from {here}, expected {REPO}')
    return panqec


def _scratch_dir(name):
    base = os.environ.get('VERIF_SCRATCH')
    if not base:
        base = os.path.join(VERIF_DIR, '.scratch')
    path = os.path.join(base, name)
    os.makedirs(path, exist_ok=True)
    return path


def scratch_dir(name):
    return _scratch_dir(name)


@contextlib.contextmanager
def quiet():
    """Silence panqec's prints / tqdm bars (python-level streams)."""
    out, err = io.StringIO(), io.StringIO()
    with contextlib.redirect_stdout(out), contextlib.redirect_stderr(err):
        yield


def canon(obj):
    return json.dumps(obj, sort_keys=True, separators=(',', ':'), default=_js)


def _js(o):
    import numpy as np
    if isinstance(o, (np.integer,)):
        return int(o)
    if isinstance(o, (np.floating,)):
        return float(o)
    if isinstance(o, (np.bool_,)):
        return bool(o)
    if isinstance(o, np.ndarray):
        return o.tolist()
    if isinstance(o, (set, frozenset)):
        return sorted(o)
    if isinstance(o, tuple):
        return list(o)
    raise TypeError(f'not JSON serialisable: {type(o)}')


def jsonable(obj):
    return json.loads(canon(obj))


def case_hash(case):
    return hashlib.sha256(canon(case).encode()).hexdigest()[:16]


def _panqec_frame(tb):
    """Innermost frame of the traceback that lies in the panqec package."""
    found = None
    root = os.path.realpath(REPO)
    for fs in traceback.extract_tb(tb):
        fn = os.path.realpath(fs.filename)
        if fn.startswith(root + os.sep):
            found = f'{os.path.relpath(fn, root)}:{fs.name}'
    return found


class CaseTimeout(BaseException):
    pass


CASE_LIMIT = float(os.environ.get('VERIF_CASE_TIMEOUT', '300'))


def _set_case_limit(tier):
    global CASE_LIMIT
    if 'VERIF_CASE_TIMEOUT' not in os.environ:
        CASE_LIMIT = 240.0 if tier == 'quick' else 3600.0


def _case_alarm(signum, frame):
    raise CaseTimeout()


def safe_eval(eval_case, case):
    """Run eval_case; an exception escaping from panqec code is a violation
    ('raises'), an exception with no panqec frame is a harness error.  A case
    that exceeds the per-case time limit is abandoned and counted
    ('case-timeout'): inconclusive, never a violation."""
    import signal
    import threading
    use_timer = (threading.current_thread() is threading.main_thread()
                 and mp.current_process().name != 'MainProcess')
    if use_timer:
        signal.signal(signal.SIGALRM, _case_alarm)
        signal.setitimer(signal.ITIMER_REAL, CASE_LIMIT)
    try:
        try:
            with quiet():
                res = eval_case(case)
        finally:
            if use_timer:
                signal.setitimer(signal.ITIMER_REAL, 0)
    except CaseTimeout:
        return {'fails': [], 'nontrivial': False, 'labels': ['case-timeout'], 'evals': 0,
                'timeout': True}
    except (Exception, KeyboardInterrupt) as exc:  # noqa
        # (a KeyboardInterrupt injected by a check must not take the pool
        # worker down: the parent would wait for it for ever)
        tb = sys.exc_info()[2]
        frame = _panqec_frame(tb)
        if isinstance(exc, KeyboardInterrupt):
            frame = None
        text = ''.join(traceback.format_exception(type(exc), exc, tb))[-3000:]
        if frame is None:
            return {'harness_error': text, 'fails': [], 'nontrivial': False,
                    'labels': [], 'evals': 0}
        return {
            'fails': [{
                'relation': 'raises',
                'detail': f'{type(exc).__name__}: {exc} @ {frame}',
                'sig': {'exc': type(exc).__name__, 'frame': frame},
                'traceback': text,
            }],
            'nontrivial': False, 'labels': ['raised'], 'evals': 1,
        }
    res.setdefault('fails', [])
    res.setdefault('nontrivial', False)
    res.setdefault('labels', [])
    res.setdefault('evals', 1)
    return res


# --------------------------------------------------------------------------
# known findings

class Known:
    def __init__(self, prop, module=None):
        self.case_sig = getattr(module, 'case_sig', None)
        path = os.path.join(VERIF_DIR, 'known_findings.json')
        self.entries = []
        if os.path.exists(path):
            with open(path) as f:
                data = json.load(f)
            self.entries = [e for e in data.get('findings', [])
                            if e['property'] == prop]
        self.known = [e for e in self.entries if e.get('status') == 'known']

    @staticmethod
    def _match(entry, sig):
        for k, want in entry['match'].items():
            have = sig.get(k)
            if isinstance(want, list):
                if have not in want:
                    return False
            elif have != want:
                return False
        return True

    def classify(self, case, fail):
        """Return the key of the known entry that lists this failure, or
        None if the failure is not listed."""
        sig = dict(case.get('sig', {})) if isinstance(case, dict) else {}
        if self.case_sig is not None:
            try:
                sig.update(self.case_sig(case))
            except Exception:
                pass
        for k, v in (case.items() if isinstance(case, dict) else []):
            if isinstance(v, (str, int, bool)) or v is None:
                sig.setdefault(k, v)
        sig.update(fail.get('sig', {}))
        sig['relation'] = fail['relation']
        for e in self.known:
            if self._match(e, sig):
                return e['key']
        return None


# --------------------------------------------------------------------------
# worker side

_MODULE = None
_KNOWN = None


def _worker_init(modname, prop):
    global _MODULE, _KNOWN
    setup_repo_import()
    _MODULE = importlib.import_module(modname)
    _KNOWN = Known(prop, _MODULE)


def _worker_eval(cases):
    out = []
    for case in cases:
        res = safe_eval(_MODULE.eval_case, case)
        out.append((case, res))
    return out


def _worker_hypothesis(args):
    """One shard of a Hypothesis search.  Returns aggregated stats and, if a
    failure not listed in known_findings was found, the shrunk case."""
    strategy_name, n_examples, seed, kwargs = args
    import hypothesis
    from hypothesis import given, settings, HealthCheck, Phase
    strat = getattr(_MODULE, strategy_name)(**kwargs)
    stats = Stats()
    state = {'last_fail': None, 'harness': None}

    @hypothesis.seed(seed)
    @settings(max_examples=n_examples, database=None, deadline=None,
              derandomize=False, report_multiple_bugs=False,
              suppress_health_check=list(HealthCheck),
              phases=[Phase.generate, Phase.shrink])
    @given(strat)
    def test(case):
        case = jsonable(case)
        res = safe_eval(_MODULE.eval_case, case)
        if 'harness_error' in res:
            state['harness'] = res['harness_error']
            raise HarnessError(res['harness_error'])
        unlisted = stats.add(case, res, _KNOWN)
        if unlisted:
            state['last_fail'] = (case, unlisted)
            raise AssertionError(unlisted[0]['relation'])

    failure = None
    try:
        with quiet():
            test()
    except HarnessError as exc:
        return {'stats': stats.dump(), 'harness_error': str(exc)}
    except AssertionError:
        failure = state['last_fail']
    except Exception as exc:  # hypothesis internal errors (Flaky, ...)
        if state['last_fail'] is not None:
            failure = state['last_fail']
        else:
            return {'stats': stats.dump(), 'harness_error':
                    ''.join(traceback.format_exception(exc))[-3000:]}
    if failure is not None:
        # re-evaluate the shrunk case so that what is reported is exactly
        # what the replay file reproduces
        case, _ = failure
        res = safe_eval(_MODULE.eval_case, case)
        fails = [f for f in res['fails']
                 if _KNOWN.classify(case, f) is None]
        if not fails:
            fails = failure[1]
        failure = (case, fails)
    return {'stats': stats.dump(), 'failure': failure}


def _worker_call(args):
    """Run an arbitrary module-level function in a worker (for checks whose
    unit of work is bigger than one case, e.g. a state machine shard).  The
    function returns a list of (case, result) pairs."""
    fname, kwargs = args
    fn = getattr(_MODULE, fname)
    try:
        with quiet():
            pairs = fn(**kwargs)
    except Exception as exc:  # noqa
        tb = sys.exc_info()[2]
        return {'harness_error':
                ''.join(traceback.format_exception(type(exc), exc, tb))[-3000:]}
    return {'pairs': pairs}


# --------------------------------------------------------------------------
# statistics

class Stats:
    MAX_SAMPLES = 12

    def __init__(self):
        self.evaluations = 0
        self.cases = 0
        self.nontrivial = set()
        self.labels = {}
        self.samples = []
        self.nt_samples = []
        self.excluded_known = {}
        self.aux = []
        self.violations = []   # (case, fails)

    def add(self, case, res, known):
        """Record one evaluated case. Returns the list of failures that are
        not listed as known findings."""
        self.cases += 1
        self.evaluations += int(res.get('evals', 1))
        h = case_hash(case)
        if res.get('nontrivial'):
            if h not in self.nontrivial and len(self.nt_samples) < self.MAX_SAMPLES:
                self.nt_samples.append(_short(case))
            self.nontrivial.add(h)
        elif res.get('nontrivial_keys'):
            if len(self.nt_samples) < self.MAX_SAMPLES:
                s_ = _short(case)
                if isinstance(s_, dict) and 'truncated' not in s_:
                    s_ = dict(s_, _nontrivial_items=list(res['nontrivial_keys'][:3]))
                self.nt_samples.append(s_)
        elif len(self.samples) < 4:
            self.samples.append(_short(case))
        for extra in res.get('nontrivial_keys', []):
            self.nontrivial.add(extra)
        for lab in res.get('labels', []):
            self.labels[lab] = self.labels.get(lab, 0) + 1
        if 'aux' in res and len(self.aux) < 500:
            self.aux.append(res['aux'])
        unlisted = []
        for f in res.get('fails', []):
            key = known.classify(case, f) if known else None
            if key is None:
                unlisted.append(f)
            else:
                self.excluded_known[key] = self.excluded_known.get(key, 0) + 1
        return unlisted

    def dump(self):
        return {
            'evaluations': self.evaluations, 'cases': self.cases,
            'nontrivial': sorted(self.nontrivial), 'labels': self.labels,
            'samples': self.samples, 'nt_samples': self.nt_samples,
            'excluded_known': self.excluded_known, 'aux': self.aux,
        }

    def merge(self, d):
        self.evaluations += d['evaluations']
        self.cases += d['cases']
        self.nontrivial.update(d['nontrivial'])
        for k, v in d['labels'].items():
            self.labels[k] = self.labels.get(k, 0) + v
        for s in d['samples']:
            if len(self.samples) < 4:
                self.samples.append(s)
        for s in d['nt_samples']:
            if len(self.nt_samples) < self.MAX_SAMPLES:
                self.nt_samples.append(s)
        for k, v in d['excluded_known'].items():
            self.excluded_known[k] = self.excluded_known.get(k, 0) + v
        self.aux.extend(d.get('aux', []))


def _short(case, limit=1500):
    s = canon(case)
    if len(s) <= limit:
        return json.loads(s)
    return {'truncated': s[:limit]}


# --------------------------------------------------------------------------
# main-process context

class Context:
    def __init__(self, module, tier, seed):
        self.module = module
        self.prop = module.PROPERTY
        self.tier = tier
        self.seed = seed
        self.known = Known(self.prop, module)
        self.stats = Stats()
        self.violations = []        # (case, fails)
        self.harness_errors = []
        self.notes = {}
        self.exhaustive = None
        self.aux = []
        self.t0 = time.time()
        self._pool = None

    # -- pool -------------------------------------------------------------
    def pool(self):
        if self._pool is None:
            ctx = mp.get_context('fork')
            self._pool = ctx.Pool(
                NPROC, initializer=_worker_init,
                initargs=(self.module.__name__, self.prop))
        return self._pool

    def close(self):
        if self._pool is not None:
            self._pool.terminate()
            self._pool.join()
            self._pool = None

    # -- recording --------------------------------------------------------
    def record(self, case, res):
        if 'harness_error' in res:
            self.harness_errors.append(res['harness_error'])
            return
        unlisted = self.stats.add(case, res, self.known)
        if unlisted:
            self.violations.append((case, unlisted))
        if 'aux' in res:
            self.aux.append(res['aux'])
            if self.stats.aux and self.stats.aux[-1] is res['aux']:
                self.stats.aux.pop()

    def note(self, key, value):
        self.notes[key] = value

    # -- drivers ----------------------------------------------------------
    def run_cases(self, cases, chunk=None, serial=False):
        """Evaluate an explicit list of cases (enumeration)."""
        cases = list(cases)
        if not cases:
            return
        if serial or len(cases) < 4:
            for c in cases:
                self.record(c, safe_eval(self.module.eval_case, c))
            return
        if chunk is None:
            chunk = max(1, min(64, len(cases) // (NPROC * 4)))
        chunks = [cases[i:i + chunk] for i in range(0, len(cases), chunk)]
        for out in self.pool().imap_unordered(_worker_eval, chunks):
            for case, res in out:
                self.record(case, res)

    def run_hypothesis(self, strategy_name, n_examples, shards=None,
                       **kwargs):
        """Random search: `strategy_name` is a module-level function
        returning a Hypothesis strategy of case dicts.  Sharded over NPROC
        processes, each with its own seed derived from VERIF_SEED."""
        if shards is None:
            shards = NPROC
        shards = max(1, min(shards, n_examples))
        per = max(1, n_examples // shards)
        base = int(hashlib.sha256(
            f'{self.prop}:{strategy_name}:{self.seed}'.encode()
        ).hexdigest()[:8], 16)
        jobs = [(strategy_name, per, base + i, kwargs) for i in range(shards)]
        for out in self.pool().imap_unordered(_worker_hypothesis, jobs):
            self.stats.merge(out['stats'])
            self.aux.extend(out['stats'].get('aux', []))
            if 'harness_error' in out:
                self.harness_errors.append(out['harness_error'])
            if out.get('failure'):
                self.violations.append(tuple(out['failure']))

    def run_calls(self, fname, kwargs_list):
        """Run module function `fname(**kw)` for every kw in parallel; each
        returns a list of (case, result) pairs."""
        jobs = [(fname, kw) for kw in kwargs_list]
        for out in self.pool().imap_unordered(_worker_call, jobs):
            if 'harness_error' in out:
                self.harness_errors.append(out['harness_error'])
                continue
            for case, res in out['pairs']:
                res.setdefault('fails', [])
                res.setdefault('evals', 1)
                self.record(jsonable(case), res)

    # -- replays ----------------------------------------------------------
    def replay_dir(self):
        return os.path.join(VERIF_DIR, 'replays', self.prop)

    def run_regressions(self):
        """Committed replay files (shrunk failures of fixed defects, seeds):
        ordinary regression cases, re-run first on every invocation."""
        d = os.path.join(self.replay_dir(), 'regress')
        n = 0
        if os.path.isdir(d):
            for name in sorted(os.listdir(d)):
                if not name.endswith('.json'):
                    continue
                with open(os.path.join(d, name)) as f:
                    data = json.load(f)
                case = data['case']
                res = safe_eval(self.module.eval_case, case)
                res = dict(res)
                res['labels'] = list(res.get('labels', [])) + ['regression-replay']
                self.record(case, res)
                n += 1
        self.note('regression_replays', n)

    def report_known(self):
        """Replay the reproducer of each *known* finding; print one
        KNOWN-FINDING line for each that still fails."""
        lines = []
        for e in self.known.known:
            path = os.path.join(VERIF_DIR, e['reproducer'])
            with open(path) as f:
                case = json.load(f)['case']
            res = safe_eval(self.module.eval_case, case)
            if 'harness_error' in res:
                self.harness_errors.append(res['harness_error'])
                continue
            listed = [f_ for f_ in res['fails']
                      if self.known.classify(case, f_) == e['key']]
            other = [f_ for f_ in res['fails']
                     if self.known.classify(case, f_) is None]
            if listed:
                lines.append(f"KNOWN-FINDING: property={self.prop} "
                             f"{e['what']}")
                self.stats.excluded_known[e['key']] = \
                    self.stats.excluded_known.get(e['key'], 0) + len(listed)
            else:
                self.note(f"known_finding_not_reproduced:{e['key']}", True)
            if other:
                self.violations.append((case, other))
        for ln in lines:
            print(ln)

    def write_violation(self, case, fails):
        d = os.path.join(OUT_DIR, 'replays', self.prop)
        os.makedirs(d, exist_ok=True)
        rel = fails[0]['relation'].replace('/', '_').replace(' ', '_')[:40]
        name = f'violation_{rel}_{case_hash(case)}.json'
        path = os.path.join(d, name)
        with open(path, 'w') as f:
            json.dump({'property': self.prop, 'tier': self.tier,
                       'seed': self.seed, 'case': case,
                       'fails': jsonable(fails)}, f, indent=1, default=_js)
        return os.path.relpath(path, OUT_DIR)

    # -- evidence ---------------------------------------------------------
    def write_evidence(self, n_violation_buckets):
        st = self.stats
        samples = st.nt_samples[:8] + st.samples[:2]
        cov = {
            'evaluations': st.evaluations,
            'cases': st.cases,
            'distinct_nontrivial': len(st.nontrivial),
            'rule': self.module.RULE,
            'samples': samples,
            'histogram': dict(sorted(st.labels.items())),
            'excluded_by_known_finding': st.excluded_known,
        }
        if self.exhaustive is not None:
            cov['exhaustive'] = bool(self.exhaustive)
        cov.update(self.notes)
        ev = {
            'property_id': self.prop,
            'tier': self.tier,
            'seed': self.seed,
            'level': self.module.LEVEL,
            'coverage': cov,
            'assumptions': list(getattr(self.module, 'ASSUMPTIONS', [])),
            'wall_s': round(time.time() - self.t0, 2),
            'violations': n_violation_buckets,
        }
        d = os.path.join(OUT_DIR, 'evidence')
        os.makedirs(d, exist_ok=True)
        with open(os.path.join(d, f'{self.prop}.json'), 'w') as f:
            json.dump(ev, f, indent=1, default=_js)
        return ev


def bucket_key(fails):
    f = fails[0]
    sig = f.get('sig', {})
    return (f['relation'], canon({k: sig[k] for k in sorted(sig)
                                  if k in ('class', 'decoder', 'frame',
                                           'exc', 'bucket')}))


def find_module(prop):
    d = os.path.join(VERIF_DIR, 'checks')
    for name in sorted(os.listdir(d)):
        if name.lower().startswith(prop.lower() + '_') and name.endswith('.py'):
            return 'checks.' + name[:-3]
    raise HarnessError(f'no check module for {prop}')


def main(argv=None):
    import argparse
    ap = argparse.ArgumentParser()
    ap.add_argument('prop')
    ap.add_argument('--tier', default=os.environ.get('VERIF_TIER', 'quick'),
                    choices=['quick', 'thorough'])
    ap.add_argument('--replay', default=None)
    args = ap.parse_args(argv)
    seed = int(os.environ.get('VERIF_SEED', '1'))
    try:
        if VERIF_DIR not in sys.path:
            sys.path.insert(0, VERIF_DIR)
        setup_repo_import()
        module = importlib.import_module(find_module(args.prop))
    except Exception:
        traceback.print_exc()
        print(f'HARNESS-ERROR property={args.prop} import failed')
        return 2

    _set_case_limit(args.tier)      # inherited by the forked workers
    try:
        ctx = Context(module, args.tier, seed)
    except Exception:
        traceback.print_exc()
        print(f'HARNESS-ERROR property={args.prop} context')
        return 2
    if args.replay:
        path = args.replay
        if not os.path.isabs(path) and not os.path.exists(path):
            path = os.path.join(VERIF_DIR, path)
        with open(path) as f:
            data = json.load(f)
        case = data['case'] if 'case' in data else data
        res = safe_eval(module.eval_case, case)
        if 'harness_error' in res:
            print(res['harness_error'])
            print(f'HARNESS-ERROR property={ctx.prop} replay')
            return 2
        for f_ in res['fails']:
            print(f"  fail: {f_['relation']}: {f_['detail']}")
        unlisted = [f_ for f_ in res['fails']
                    if ctx.known.classify(case, f_) is None]
        if unlisted:
            print(f'VIOLATION property={ctx.prop} replay={args.replay}')
            return 1
        if res['fails']:
            print(f'KNOWN-FINDING: property={ctx.prop} (replayed case is '
                  f'listed in known_findings.json)')
        else:
            print(f'replay ok property={ctx.prop}')
        return 0

    import signal

    class _Timeout(Exception):
        pass

    def _on_alarm(signum, frame):
        raise _Timeout()
    budget = int(os.environ.get('VERIF_TIMEOUT', '2400' if args.tier == 'quick' else '28800'))
    signal.signal(signal.SIGALRM, _on_alarm)
    signal.alarm(budget)
    try:
        ctx.run_regressions()
        ctx.report_known()
        module.run(ctx)
    except _Timeout:
        # a time budget hit is "inconclusive", never a violation
        ctx.harness_errors.append(f'time budget of {budget}s exhausted (a decode may hang)')
    except HarnessError as exc:
        ctx.harness_errors.append(str(exc))
    except Exception:
        ctx.harness_errors.append(traceback.format_exc())
    finally:
        signal.alarm(0)
        ctx.close()

    # bucket violations by root cause; keep the smallest case per bucket
    buckets = {}
    for case, fails in ctx.violations:
        k = bucket_key(fails)
        size = len(canon(case))
        if k not in buckets or size < buckets[k][0]:
            buckets[k] = (size, case, fails)
    try:
        ev = ctx.write_evidence(len(buckets))
    except Exception:
        traceback.print_exc()
        print(f'HARNESS-ERROR property={ctx.prop} evidence')
        return 2

    st = ctx.stats
    print(f'{ctx.prop} tier={ctx.tier} seed={seed}: cases={st.cases} '
          f'evaluations={st.evaluations} '
          f'distinct_nontrivial={len(st.nontrivial)} '
          f'excluded_known={sum(st.excluded_known.values())} '
          f'violations={len(buckets)} wall={ev["wall_s"]}s')

    if buckets:
        for k in sorted(buckets)[:12]:
            _, case, fails = buckets[k]
            path = ctx.write_violation(case, fails)
            print(f"  {fails[0]['relation']}: {str(fails[0]['detail'])[:400]}")
            print(f'VIOLATION property={ctx.prop} replay={path}')
        return 1
    n_to = st.labels.get('case-timeout', 0)
    if n_to:
        ctx.harness_errors.append(
            f'{n_to} case(s) exceeded the per-case time limit of {CASE_LIMIT:.0f}s '
            f'(inconclusive; a call into panqec may not terminate)')
    if ctx.harness_errors:
        for e in ctx.harness_errors[:3]:
            print(e)
        print(f'HARNESS-ERROR property={ctx.prop} '
              f'({len(ctx.harness_errors)} errors)')
        return 2
    if len(st.nontrivial) < 2:
        print(f'HARNESS-ERROR property={ctx.prop} fewer than 2 non-trivial '
              f'cases generated')
        return 2
    return 0


if __name__ == '__main__':
    try:
        rc = main()
    except SystemExit:
        raise
    except BaseException:      # never let a harness crash look like exit 1
        traceback.print_exc()
        print('HARNESS-ERROR uncaught exception in the runner')
        rc = 2
    sys.exit(rc)
