"""Input domains shared by the checks (DESIGN.md section 0.1).

The supported size family of every class is fixed a priori from docstrings,
source comments and the structure of the construction.
"""
import itertools

import numpy as np
from hypothesis import strategies as st

CODE_CLASSES = [
    'Toric2DCode', 'Planar2DCode', 'RotatedPlanar2DCode',
    'Color666PlanarCode', 'Color666ToricCode', 'Color488Code',
    'Toric3DCode', 'Planar3DCode', 'RotatedPlanar3DCode',
    'RotatedToric3DCode', 'RhombicToricCode', 'RhombicPlanarCode',
    'HollowPlanar3DCode', 'HollowRhombicCode', 'XCubeCode', 'Color3DCode',
]

DIM = {
    'Toric2DCode': 2, 'Planar2DCode': 2, 'RotatedPlanar2DCode': 2,
    'Color666PlanarCode': 2, 'Color666ToricCode': 2, 'Color488Code': 2,
}
for _c in CODE_CLASSES:
    DIM.setdefault(_c, 3)

# axes accepted by get_deformation(deformation_axis=...)
AXES = {
    'Toric2DCode': ['x', 'y'], 'Planar2DCode': ['x', 'y'],
    'RotatedPlanar2DCode': ['x', 'y'],
    'Toric3DCode': ['x', 'y', 'z'], 'Planar3DCode': ['x', 'y', 'z'],
    'RotatedPlanar3DCode': ['x', 'y', 'z'],
    'RotatedToric3DCode': ['x', 'y', 'z'], 'XCubeCode': ['x', 'y', 'z'],
}
DEFAULT_AXIS = {
    'Toric2DCode': 'y', 'Planar2DCode': 'y', 'RotatedPlanar2DCode': 'y',
    'Toric3DCode': 'y', 'Planar3DCode': 'z', 'RotatedPlanar3DCode': 'z',
    'RotatedToric3DCode': 'y', 'XCubeCode': 'z',
}
COLOR_2D = ('Color666PlanarCode', 'Color666ToricCode', 'Color488Code')


def get_class(name):
    import panqec.codes as pc
    return getattr(pc, name)


# open-boundary square / cubic lattices: a side of length 1 is a degenerate
# but well-defined lattice (no periodic identification, no two-cell colouring)
OPEN_LATTICES = ('Planar2DCode', 'RotatedPlanar2DCode', 'Planar3DCode',
                 'RotatedPlanar3DCode', 'HollowPlanar3DCode')


def size_ok(cls, size, thin=False):
    """Is `size` in the supported family of class `cls`?  With thin=True
    the open-boundary lattices also admit sides of length 1 (used by the
    code-structure checks; decoders are not exercised there)."""
    if cls == 'Color666PlanarCode':
        return size[0] >= 1
    if cls in ('Color488Code', 'Color666ToricCode'):
        return all(L >= 1 for L in size)
    if thin and cls in OPEN_LATTICES:
        return all(L >= 1 for L in size) and max(size) >= 2
    if thin and cls == 'RhombicPlanarCode':
        # a one-layer slab is a valid member (a side of 1 in x or y is not)
        return size[0] >= 2 and size[1] >= 2 and size[2] >= 1
    if any(L < 2 for L in size):
        return False
    if cls in ('RhombicToricCode', 'Color3DCode'):
        return all(L % 2 == 0 for L in size)
    if cls == 'HollowRhombicCode':
        return size[2] >= 3
    if cls == 'RotatedToric3DCode':
        return not (size[0] % 2 == 1 and size[1] % 2 == 1)
    return True


def sizes(cls, max_L, max_L_2d=None, max_color=None, thin=False):
    """All family sizes of `cls` with every L_i <= bound."""
    dim = DIM[cls]
    if cls == 'Color666PlanarCode':
        top = max_color if max_color is not None else max_L
        # L_y is accepted (and recorded) independently of L_x
        return [(L, Ly) for L in range(1, top + 1) for Ly in range(1, top + 1)]
    if cls in COLOR_2D:
        top = max_color if max_color is not None else max_L
    elif dim == 2:
        top = max_L_2d if max_L_2d is not None else max_L
    else:
        top = max_L
    lo = 1 if (cls in COLOR_2D or (thin and cls in OPEN_LATTICES + ('RhombicPlanarCode',))) else 2
    out = []
    for s in itertools.product(range(lo, top + 1), repeat=dim):
        if size_ok(cls, s, thin=thin):
            out.append(s)
    return out


def deformations(cls):
    """[(name|None, kwargs)] offered by the class: every name x every axis
    accepted, plus the default (no kwarg), plus undeformed."""
    klass = get_class(cls)
    out = [(None, {})]
    for name in klass.deformation_names:
        out.append((name, {}))
        if name == 'XZZX':
            for ax in AXES.get(cls, []):
                out.append((name, {'deformation_axis': ax}))
    return out


def build_code(cls, size, deformation=None, kwargs=None):
    klass = get_class(cls)
    code = klass(*size)
    if deformation is not None:
        code.deform(deformation, **(kwargs or {}))
    return code


def code_case(cls, size, deformation=None, kwargs=None):
    return {'cls': cls, 'size': list(size), 'deformation': deformation,
            'kwargs': dict(kwargs or {})}


def build_from_case(case):
    return build_code(case['cls'], case['size'], case.get('deformation'),
                      case.get('kwargs'))


_N_CACHE = {}


def n_estimate(cls, size):
    """Number of qubits (only used to bound the cost of generated sizes).
    If the class cannot even list its qubits the size is kept (0) so that
    the check itself reports the failure."""
    key = (cls, tuple(size))
    if key not in _N_CACHE:
        try:
            _N_CACHE[key] = len(get_class(cls)(*size).qubit_coordinates)
        except Exception:
            _N_CACHE[key] = 0
    return _N_CACHE[key]


def all_code_cases(max_L, max_L_2d=None, max_color=None, max_n=None,
                   classes=None, with_deformations=True, thin=False):
    cases = []
    for cls in (classes or CODE_CLASSES):
        for s in sizes(cls, max_L, max_L_2d, max_color, thin=thin):
            if max_n is not None and n_estimate(cls, s) > max_n:
                continue
            defs = deformations(cls) if with_deformations else [(None, {})]
            for name, kw in defs:
                cases.append(code_case(cls, s, name, kw))
    return cases


@st.composite
def code_cases(draw, max_L=8, max_L_2d=14, max_color=5, max_n=1500,
               classes=None, min_parity_mix=False):
    """Random family member, biased to non-cubic and mixed-parity sizes."""
    cls = draw(st.sampled_from(classes or CODE_CLASSES))
    dim = DIM[cls]
    if cls in COLOR_2D:
        lo, top = 1, max_color
    elif dim == 2:
        lo, top = 2, max_L_2d
    else:
        lo, top = 2, max_L
    for _ in range(40):
        if cls == 'Color666PlanarCode':
            L = draw(st.integers(1, top))
            size = (L, draw(st.sampled_from([L, L, 1, draw(st.integers(1, top))])))
        elif cls in ('RhombicToricCode', 'Color3DCode'):
            size = tuple(draw(st.lists(
                st.integers(1, max(1, top // 2)).map(lambda v: 2 * v),
                min_size=dim, max_size=dim)))
        else:
            size = tuple(draw(st.lists(st.integers(lo, top),
                                       min_size=dim, max_size=dim)))
        if size_ok(cls, size) and n_estimate(cls, size) <= max_n:
            break
    else:
        size = sizes(cls, 4, 4, 2)[0]
    name, kw = draw(st.sampled_from(deformations(cls)))
    return code_case(cls, size, name, kw)


# ---------------------------------------------------------------------------
# noise

DIRECTION_POOL = [
    (1, 0, 0), (0, 1, 0), (0, 0, 1),
    (0.5, 0.5, 0), (0.5, 0, 0.5), (0, 0.5, 0.5),
    (1 / 3, 1 / 3, 1 / 3), (0.2, 0.3, 0.5), (0.7, 0.2, 0.1),
    (0.05, 0.05, 0.9), (0.1, 0.6, 0.3),
    # two equal components (X/Z-, X/Y-, Y/Z-symmetric noise)
    (0.1, 0.8, 0.1), (0.4, 0.2, 0.4), (0.8, 0.1, 0.1), (0.45, 0.45, 0.1), (0.1, 0.45, 0.45),
]


@st.composite
def directions(draw, interior_only=False):
    """Points of the simplex r_x+r_y+r_z = 1: vertices, faces, interior."""
    kind = draw(st.sampled_from(
        ['interior'] if interior_only else
        ['pool', 'pool', 'interior', 'interior', 'face', 'grid']))
    if kind == 'pool':
        return list(draw(st.sampled_from(DIRECTION_POOL)))
    if kind == 'grid':
        a = draw(st.integers(0, 20))
        b = draw(st.integers(0, 20 - a))
        return [a / 20, b / 20, (20 - a - b) / 20]
    if kind == 'face':
        a = draw(st.floats(0.01, 0.99))
        z = draw(st.integers(0, 2))
        r = [a, 1 - a]
        r.insert(z, 0.0)
        return r
    a = draw(st.floats(0.01, 0.98))
    b = draw(st.floats(0.01, 0.99)) * (1 - a)
    b = min(max(b, 0.005), 1 - a - 0.005)
    return [a, b, 1 - a - b]


def as_given(draw, values):
    """Input files and callers often write 0 and 1 as integers: pass exact
    0.0 / 1.0 values as int now and then."""
    out = []
    for v in values:
        if v in (0.0, 1.0) and draw(st.booleans()):
            out.append(int(v))
        else:
            out.append(float(v))
    return out


def random_bsf(rng, n, p):
    """i.i.d. depolarising-style error drawn with the harness generator."""
    u = rng.random(n)
    which = rng.integers(1, 4, size=n)
    e = np.zeros(2 * n, dtype=np.uint8)
    hit = u < p
    e[:n][hit & (which != 3)] = 1          # X or Y
    e[n:][hit & (which != 1)] = 1          # Y or Z
    return e
