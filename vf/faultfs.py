"""In-process write interposition for crash-point enumeration (C12).

`FaultFS(root)` replaces builtins.open / os.replace / os.rename inside the
harness process.  For paths under `root` opened for writing, the file object
is rebuilt as TextIOWrapper/BufferedWriter over a raw layer that forwards to
the real FileIO, so that *every OS-level write* is a numbered event (gzip
goes through builtins.open as well, so its compressed chunks are events too).

Events: ('open-before', path) nothing has happened yet;
        ('open-after', path)  the file has just been truncated;
        ('write', path, nbytes) one raw write;
        ('replace-before', src, dst), ('replace-after', src, dst).

`arm(index, frac, mode)`: at event `index`
  mode 'kill': write only floor(frac * nbytes) bytes of that write, then raise
               SimulatedKill (BaseException).  From then on the "process" is
               dead: later writes / replaces from finally-blocks and `with`
               cleanup are dropped - the disk keeps what a SIGKILL would
               leave.
  mode 'interrupt': raise KeyboardInterrupt once (the process lives on).
"""
import builtins
import io
import os


class SimulatedKill(BaseException):
    pass


class _Raw(io.RawIOBase):
    def __init__(self, fs, path, real):
        super().__init__()
        self.fs, self.path, self.real = fs, path, real

    def writable(self):
        return True

    def readable(self):
        return False

    def seekable(self):
        return True

    def seek(self, *a):
        return self.real.seek(*a)

    def tell(self):
        return self.real.tell()

    def fileno(self):
        return self.real.fileno()

    def write(self, b):
        b = bytes(b)
        n = len(b)
        act = self.fs._event(('write', self.path, n))
        if act == 'dead':
            return n
        if act is not None:
            mode, frac = act
            if mode == 'kill':
                k = max(0, min(n, int(frac * n)))
                if frac not in (0.0, 1.0) and n >= 2:
                    k = max(1, min(n - 1, k))
                self.real.write(b[:k])
                self.real.flush()
                self.fs.dead = True
                raise SimulatedKill(f'killed in write of {n} bytes to {self.path} after {k}')
            raise KeyboardInterrupt('injected inside write')
        self.real.write(b)
        return n

    def flush(self):
        if not self.real.closed:
            self.real.flush()

    def close(self):
        if not self.closed:
            try:
                super().close()
            finally:
                self.real.close()


class FaultFS:
    def __init__(self, root):
        self.root = os.path.realpath(root)
        self.events = []
        self.armed = None       # (index, mode, frac)
        self.dead = False
        self._orig_open = builtins.open
        self._orig_replace = os.replace
        self._orig_rename = os.rename

    # -- events -----------------------------------------------------------
    def _event(self, ev):
        if self.dead:
            return 'dead'
        idx = len(self.events)
        self.events.append(ev)
        if self.armed is not None and self.armed[0] == idx:
            _, mode, frac = self.armed
            self.armed = None
            return (mode, frac)
        return None

    def arm(self, index, mode='kill', frac=0.5):
        self.armed = (index, mode, frac)

    def _mine(self, path):
        try:
            p = os.path.realpath(os.fspath(path))
        except TypeError:
            return False
        return p.startswith(self.root + os.sep)

    # -- patched functions ------------------------------------------------
    def _open(self, file, mode='r', buffering=-1, encoding=None, errors=None,
              newline=None, closefd=True, opener=None):
        if isinstance(file, int) or not self._mine(file) or not any(c in mode for c in 'wax+'):
            return self._orig_open(file, mode, buffering, encoding, errors, newline,
                                   closefd, opener)
        path = os.path.realpath(os.fspath(file))
        act = self._event(('open-before', path))
        if act == 'dead':
            # a dead process opens nothing; hand back a sink
            return self._orig_open(os.devnull, mode.replace('x', 'w'))
        if act is not None:
            self._raise(act, path)
        real = self._orig_open(path, mode.replace('t', '').replace('b', '') + 'b', buffering=0)
        act = self._event(('open-after', path))
        if act is not None and act != 'dead':
            real.close() if act[0] == 'kill' else None
            if act[0] == 'kill':
                self.dead = True
                raise SimulatedKill(f'killed after opening {path}')
            raise KeyboardInterrupt('injected after open')
        raw = _Raw(self, path, real)
        buf = io.BufferedWriter(raw)
        if 'b' in mode:
            return buf
        return io.TextIOWrapper(buf, encoding=encoding, errors=errors, newline=newline)

    def _raise(self, act, path):
        if act[0] == 'kill':
            self.dead = True
            raise SimulatedKill(f'killed before touching {path}')
        raise KeyboardInterrupt('injected')

    def _replace(self, src, dst, **kw):
        if not (self._mine(src) or self._mine(dst)):
            return self._orig_replace(src, dst, **kw)
        act = self._event(('replace-before', os.fspath(src), os.fspath(dst)))
        if act == 'dead':
            return None
        if act is not None:
            self._raise(act, dst)
        r = self._orig_replace(src, dst, **kw)
        act = self._event(('replace-after', os.fspath(src), os.fspath(dst)))
        if act is not None and act != 'dead':
            self._raise(act, dst)
        return r

    def __enter__(self):
        builtins.open = self._open
        os.replace = self._replace
        os.rename = self._replace
        return self

    def __exit__(self, *exc):
        builtins.open = self._orig_open
        os.replace = self._orig_replace
        os.rename = self._orig_rename
        return False
