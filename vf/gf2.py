"""Independent GF(2) / symplectic algebra on Python ints.

A binary vector is a Python int (bit j = column j).  Nothing here imports
panqec: this is the oracle side.
"""
import numpy as np


def to_dense(M):
    """Dense {0,1} int64 image of a numpy array or scipy sparse matrix."""
    if hasattr(M, 'toarray'):
        M = M.toarray()
    M = np.asarray(M)
    if M.ndim == 1:
        M = M.reshape(1, -1)
    return (M.astype(np.int64) % 2)


def row_to_int(row):
    """row: 1-D array of 0/1 -> int with bit j = row[j]."""
    row = np.asarray(row).astype(np.uint8) & 1
    if row.size == 0:
        return 0
    packed = np.packbits(row, bitorder='little')
    return int.from_bytes(packed.tobytes(), 'little')


def rows_to_ints(M):
    M = to_dense(M)
    return [row_to_int(r) for r in M]


def int_to_row(v, n):
    return np.array([(v >> j) & 1 for j in range(n)], dtype=np.uint8)


def popcount(x):
    return x.bit_count()


def rank(rows):
    """Rank of the span of a list of ints."""
    basis = {}
    r = 0
    for v in rows:
        while v:
            hb = v.bit_length() - 1
            b = basis.get(hb)
            if b is None:
                basis[hb] = v
                r += 1
                break
            v ^= b
    return r


class Span:
    """Row space with membership test and coordinates."""

    def __init__(self, rows=()):
        self.basis = {}     # pivot bit -> (vector, combination mask)
        self.n_rows = 0
        for v in rows:
            self.add(v)

    def add(self, v):
        idx = self.n_rows
        self.n_rows += 1
        comb = 1 << idx
        while v:
            hb = v.bit_length() - 1
            b = self.basis.get(hb)
            if b is None:
                self.basis[hb] = (v, comb)
                return True
            v ^= b[0]
            comb ^= b[1]
        return False

    @property
    def dim(self):
        return len(self.basis)

    def reduce(self, v):
        comb = 0
        while v:
            hb = v.bit_length() - 1
            b = self.basis.get(hb)
            if b is None:
                return v, comb
            v ^= b[0]
            comb ^= b[1]
        return 0, comb

    def contains(self, v):
        return self.reduce(v)[0] == 0


def symp_int(a, b, n):
    """Symplectic form of two 2n-bit ints laid out [x | z]."""
    mask = (1 << n) - 1
    ax, az = a & mask, a >> n
    bx, bz = b & mask, b >> n
    return (popcount(ax & bz) + popcount(az & bx)) & 1


def symp_matrix(A, B):
    """(A Omega B^T) mod 2 for dense/sparse binary matrices with 2n columns,
    computed with int64 arithmetic (no wrap-around possible below 2^62)."""
    from scipy import sparse
    A = sparse.csr_matrix(to_dense(A))
    B = sparse.csr_matrix(to_dense(B))
    n = A.shape[1] // 2
    Ax, Az = A[:, :n], A[:, n:]
    Bx, Bz = B[:, :n], B[:, n:]
    P = (Ax @ Bz.T + Az @ Bx.T).toarray().astype(np.int64) % 2
    return P


def solve(H_rows, n_cols, s_bits):
    """Find x (int, n_cols bits) with H x = s over GF(2), or None.
    H_rows: list of ints (bit j = column j); s_bits: list of 0/1."""
    # eliminate on augmented rows: bit n_cols carries s
    aug = [r | (int(s) << n_cols) for r, s in zip(H_rows, s_bits)]
    pivots = []
    rows = list(aug)
    used = [False] * len(rows)
    for col in range(n_cols):
        piv = None
        for i, r in enumerate(rows):
            if not used[i] and (r >> col) & 1:
                piv = i
                break
        if piv is None:
            continue
        used[piv] = True
        pr = rows[piv]
        for i, r in enumerate(rows):
            if i != piv and (r >> col) & 1:
                rows[i] = r ^ pr
        pivots.append((col, piv))
    for i, r in enumerate(rows):
        if not used[i] and r >> n_cols:
            if r & ((1 << n_cols) - 1) == 0:
                return None
    x = 0
    for col, piv in pivots:
        if rows[piv] >> n_cols & 1:
            x |= 1 << col
    return x


def kernel(H_rows, n_cols):
    """Basis (list of ints) of {x : H x = 0}."""
    rows = list(H_rows)
    used = [False] * len(rows)
    pivcols = {}
    for col in range(n_cols):
        piv = None
        for i, r in enumerate(rows):
            if not used[i] and (r >> col) & 1:
                piv = i
                break
        if piv is None:
            continue
        used[piv] = True
        pr = rows[piv]
        for i, r in enumerate(rows):
            if i != piv and (r >> col) & 1:
                rows[i] = r ^ pr
        pivcols[col] = piv
    free = [c for c in range(n_cols) if c not in pivcols]
    basis = []
    for f in free:
        x = 1 << f
        for col, piv in pivcols.items():
            if (rows[piv] >> f) & 1:
                x |= 1 << col
        basis.append(x)
    return basis


def pauli_to_xz(op_chars):
    """'IXYZ...' -> (x_int, z_int)."""
    x = z = 0
    for i, c in enumerate(op_chars):
        if c in 'XY':
            x |= 1 << i
        if c in 'YZ':
            z |= 1 << i
    return x, z
