"""C11 - Monte-Carlo trials are self-consistent, reproducible, calibrated."""
import numpy as np
from hypothesis import strategies as st

from vf import decoding, domain, gf2

PROPERTY = 'C11'
LEVEL = 'exploration'
RULE = ('Hypothesis draws (small code, noise direction / deformation, error '
        'rate, decoder in {matching, union-find, BP-OSD, sweep-match}, seed, '
        'run schedule [k1,k2,...]). Per trial of run_once every recorded '
        'field is recomputed with own algebra; DirectSimulation is driven '
        'through the generated schedule and compared with a from-scratch '
        'rerun (same seed) and with the single-call schedule [sum k]. '
        'Calibration cases: exact failure probability by summing the channel '
        'over all 4^n errors (n <= 9; decoder evaluated once per distinct '
        'syndrome on a fresh object) vs a seeded Monte-Carlo run, tolerance '
        '6 sigma + 1; chi-square of syndrome frequencies. Non-trivial = '
        'trial with non-zero error and non-zero correction / calibration '
        'case with 0.01 < p_fail < 0.6; distinct = distinct case dict')
ASSUMPTIONS = [
    'calibration is statistical: |n_fail - N p_fail| <= 6 sqrt(N p (1-p)) + 1 '
    '(deterministic for a given VERIF_SEED); biases below about 0.02 '
    'absolute at N = 2e4 are invisible',
    'per-qubit channel table as validated by C07',
]
MANIFEST_ENTRY = {
    'technique': 'Hypothesis over (code, noise, decoder, seed, run schedule) '
                 'with per-trial recomputation by own algebra, model-based '
                 'schedule equivalence, and a differential against the exact '
                 'failure probability obtained by full 4^n enumeration',
    'level_text': 'Every recorded trial is re-derived independently; list '
                  'lengths and estimators are checked after arbitrary '
                  'interleavings of run(k); reproducibility is checked '
                  'bit-for-bit; the failure frequency is compared with the '
                  'exactly enumerated failure probability.',
    'level_note': 'Calibration is decided within a stated statistical '
                  'tolerance and only on codes with n <= 9.',
}

SMALL = {
    'MatchingDecoder': [('RotatedPlanar2DCode', (2, 2)), ('RotatedPlanar2DCode', (2, 3)),
                        ('RotatedPlanar2DCode', (3, 3)), ('RotatedPlanar2DCode', (2, 4)),
                        ('Planar2DCode', (2, 2)), ('Planar2DCode', (2, 3)),
                        ('Toric2DCode', (2, 2))],
    'UnionFindDecoder': [('Toric2DCode', (2, 2))],
    'BeliefPropagationOSDDecoder': [('RotatedPlanar2DCode', (3, 3)), ('Planar2DCode', (2, 3)),
                                    ('Toric2DCode', (2, 2)), ('Color666PlanarCode', (1, 1)),
                                    ('Color488Code', (1, 1)), ('RotatedPlanar2DCode', (2, 3))],
}
OTHER = {
    'SweepMatchDecoder': [('Toric3DCode', (2, 2, 2)), ('Planar3DCode', (2, 2, 2)),
                          ('Toric3DCode', (3, 3, 3))],
    'RotatedSweepMatchDecoder': [('RotatedPlanar3DCode', (2, 2, 2)), ('RotatedPlanar3DCode', (3, 3, 3))],
    'UnionFindDecoder': [('Toric2DCode', (3, 3)), ('Toric2DCode', (2, 3))],
    'MatchingDecoder': [('Toric2DCode', (3, 4)), ('Planar2DCode', (3, 3))],
    'BeliefPropagationOSDDecoder': [('Toric3DCode', (2, 2, 2)), ('XCubeCode', (2, 2, 2)),
                                    ('RhombicPlanarCode', (2, 2, 2))],
}


def recompute(code_mats, e, c):
    H, Lx, Lz, n = code_mats
    t = (np.asarray(e).astype(np.int64) + np.asarray(c).astype(np.int64)) % 2
    synd = decoding.own_syndrome(H, e)
    resid = decoding.own_syndrome(H, t)
    eff = np.concatenate([
        (Lz[:, :n] @ t[n:] + Lz[:, n:] @ t[:n]) % 2,
        (Lx[:, :n] @ t[n:] + Lx[:, n:] @ t[:n]) % 2])
    cs = not resid.any()
    return synd, eff, cs, (cs and not eff.any())


def consistency_case(case, fail):
    from panqec.simulation import DirectSimulation, run_once
    code, em, dec = decoding.build(case)
    n = code.n
    p = case['error_rate']
    mats = (gf2.to_dense(code.stabilizer_matrix), gf2.to_dense(code.logicals_x),
            gf2.to_dense(code.logicals_z), n)
    rng = np.random.default_rng(case['seed'])
    nt_count = 0
    from checks.c07_noise_model import expected_table
    tab = expected_table(code, case['direction'], float(p), case.get('noise_deformation'),
                         case.get('noise_kwargs') or {})
    for j in range(case['n_once']):
        r = run_once(code, em, dec, p, rng=rng)
        # the sampled error is an outcome of the stated channel: no qubit
        # carries a Pauli (or the identity) of probability zero
        e_ = np.asarray(r['error']).astype(int)
        for q in range(n):
            s_ = 'IXZY'[e_[q] + 2 * e_[n + q]]
            if tab[s_][q] <= 0:
                fail('trial_error_in_support',
                     f'trial {j}: qubit {q} carries {s_}, which has probability {tab[s_][q]} '
                     f'under r={case["direction"]}, p={p}')
                break
        synd, eff, cs, suc = recompute(mats, r['error'], r['correction'])
        if not np.array_equal(np.asarray(r['syndrome']).ravel() % 2, synd):
            fail('trial_syndrome', f'trial {j}: recorded syndrome != syndrome(error)')
            break
        if not np.array_equal(np.asarray(r['effective_error']).ravel(), eff):
            fail('trial_effective_error', f'trial {j}: {np.asarray(r["effective_error"]).tolist()} '
                 f'!= logical effect of error+correction {eff.tolist()}')
            break
        if bool(r['codespace']) != cs:
            fail('trial_codespace', f'trial {j}: codespace={r["codespace"]}, residual syndrome zero={cs}')
            break
        if bool(r['success']) != suc:
            fail('trial_success', f'trial {j}: success={r["success"]}, codespace and no logical effect={suc}')
            break
        if case['decoder'] in decoding.DETERMINISTIC:
            # the trial must be a trial of the configured decoder: a fresh
            # decoder returns the same correction for the recorded syndrome
            want_c = np.asarray(decoding.make_decoder(case, code, em).decode(
                np.asarray(code.measure_syndrome(np.asarray(r['error'])))))
            if not np.array_equal(np.asarray(r['correction']) % 2, want_c % 2):
                fail('trial_correction_is_decoder_output',
                     f'trial {j}: recorded correction {np.nonzero(np.asarray(r["correction"]))[0].tolist()} '
                     f'but the decoder returns {np.nonzero(want_c)[0].tolist()} for syndrome '
                     f'{np.nonzero(synd)[0].tolist()}')
                break
        if np.asarray(r['error']).any() and np.asarray(r['correction']).any():
            nt_count += 1
    # ... also for the rarest draws a trial can meet: a generator that hands
    # out the smallest variate and variates just around the channel's
    # cumulative boundaries (the distance random draws never probe)
    from checks.c07_noise_model import StubRNG
    cums = sorted({float(c_) for q in range(min(n, 4)) for c_ in
                   np.cumsum([tab['I'][q], tab['X'][q], tab['Y'][q], tab['Z'][q]])[:3]})
    for seq in ([0.0], [c_ - 1e-9 for c_ in cums if c_ - 1e-9 > 0],
                [c_ + 1e-9 for c_ in cums if c_ + 1e-9 < 1]):
        if not seq:
            continue
        stub = StubRNG(seq)
        r = run_once(code, em, dec, p, rng=stub)
        if stub.calls == 0:
            break           # (the sampler does not draw one variate per qubit)
        e_ = np.asarray(r['error']).astype(int)
        for q in range(n):
            s_ = 'IXZY'[e_[q] + 2 * e_[n + q]]
            if tab[s_][q] <= 0:
                fail('trial_error_in_support',
                     f'variates {seq[:3]}: qubit {q} carries {s_}, which has probability '
                     f'{tab[s_][q]} under r={case["direction"]}, p={p}')
                break
    # schedules
    sched = case['schedule']
    total = sum(sched)

    def run_sched(ks):
        c2, e2, d2 = decoding.build(case)
        # the seeded source of randomness, in the forms callers seed it: a
        # Generator, a legacy RandomState, or numpy's global state
        kind = case.get('rng_kind', 'generator')
        if kind == 'randomstate':
            rng_ = np.random.RandomState(case['seed'] % (2 ** 32))
        elif kind == 'module':
            np.random.seed(case['seed'] % (2 ** 32))
            rng_ = np.random
        else:
            rng_ = np.random.default_rng(case['seed'])
        sim = DirectSimulation(c2, e2, d2, p, verbose=False, rng=rng_)
        lens = []
        for k in ks:
            sim.run(k)
            res = sim.results
            lens.append((res['n_runs'], len(res['effective_error']), len(res['success']),
                         len(res['codespace'])))
        return sim, lens

    simA, lensA = run_sched(sched)
    acc = 0
    for k, ln in zip(sched, lensA):
        acc += k
        if ln != (acc, acc, acc, acc):
            fail('list_lengths', f'after schedule prefix summing to {acc}: (n_runs, len eff, '
                 f'len success, len codespace) = {ln}')
            break
    resA = simA.results
    g = simA.get_results()
    succ = np.array(resA['success'], dtype=bool)
    nf = int((~succ).sum())
    if int(g['n_fail']) != nf or int(g['n_runs']) != total:
        fail('estimator_counts', f'get_results n_fail={g["n_fail"]} n_runs={g["n_runs"]}; lists give {nf}/{total}')
    if total > 0:
        pe = nf / total
        if not abs(float(g['p_est']) - pe) <= 1e-12:
            fail('estimator_p_est', f'{g["p_est"]} != {pe}')
        se = np.sqrt(pe * (1 - pe) / (total + 1))
        if not abs(float(g['p_se']) - se) <= 1e-12:
            fail('estimator_p_se', f'{g["p_se"]} != {se}')
        for i in range(total):
            cs_i = bool(resA['codespace'][i])
            eff_i = np.asarray(resA['effective_error'][i])
            if bool(resA['success'][i]) != (cs_i and not eff_i.any()):
                fail('list_success_consistent', f'trial {i}')
                break

    def lists(sim):
        r = sim.results
        return ([np.asarray(x).tolist() for x in r['effective_error']],
                [bool(x) for x in r['success']], [bool(x) for x in r['codespace']])
    simB, _ = run_sched(sched)
    if lists(simA) != lists(simB):
        fail('reproducible_same_seed', f'two runs of schedule {sched} with seed {case["seed"]} differ')
    simC, _ = run_sched([total])
    if lists(simA) != lists(simC):
        fail('schedule_invariant', f'schedule {sched} differs from a single run({total}) with the same seed')
    return case['n_once'] + 3 * total, nt_count > 0


def exact_failure_probability(case):
    from checks.c04_success_iff_stabilizer import all_errors
    from checks.c07_noise_model import expected_table
    code, em, dec = decoding.build(case)
    n = code.n
    p = case['error_rate']
    H = gf2.to_dense(code.stabilizer_matrix)
    Lx, Lz = gf2.to_dense(code.logicals_x), gf2.to_dense(code.logicals_z)
    E = all_errors(n, 0, 4 ** n).astype(np.int64)
    S = (E[:, :n] @ H[:, n:].T + E[:, n:] @ H[:, :n].T) % 2
    keys = S @ (1 << np.arange(S.shape[1], dtype=np.int64))
    uniq, inv = np.unique(keys, return_inverse=True)
    C = np.zeros((len(uniq), 2 * n), dtype=np.int64)
    for i, k in enumerate(uniq):
        j = int(np.argmax(keys == k))
        fresh = decoding.make_decoder(case, code, em)
        s = np.asarray(code.measure_syndrome(E[j].astype(np.uint8)))
        C[i] = np.asarray(fresh.decode(s)).astype(np.int64) % 2
    T = (E + C[inv]) % 2
    R = (T[:, :n] @ H[:, n:].T + T[:, n:] @ H[:, :n].T) % 2
    eff = np.concatenate([(T[:, :n] @ Lz[:, n:].T + T[:, n:] @ Lz[:, :n].T) % 2,
                          (T[:, :n] @ Lx[:, n:].T + T[:, n:] @ Lx[:, :n].T) % 2], axis=1)
    fail_mask = R.any(axis=1) | eff.any(axis=1)
    t = expected_table(code, case['direction'], p, case.get('noise_deformation'),
                       case.get('noise_kwargs') or {})
    P = np.ones(len(E))
    for q in range(n):
        letter = E[:, q] + 2 * E[:, n + q]      # 0 I, 1 X, 2 Z, 3 Y
        tab = np.array([t['I'][q], t['X'][q], t['Z'][q], t['Y'][q]])
        P *= tab[letter]
    synd_prob = np.bincount(inv, weights=P, minlength=len(uniq))
    return float(P[fail_mask].sum()), float(P.sum()), uniq, synd_prob, H


def calibration_case(case, fail):
    from panqec.simulation import DirectSimulation, run_once
    from scipy.stats import chi2
    p_fail, total_p, uniq, synd_prob, H = exact_failure_probability(case)
    if abs(total_p - 1) > 1e-9:
        raise AssertionError(f'harness: channel does not normalise ({total_p})')
    N = case['N']
    code, em, dec = decoding.build(case)
    sim = DirectSimulation(code, em, dec, case['error_rate'], verbose=False,
                           rng=np.random.default_rng(case['seed']))
    sim.run(N)
    g = sim.get_results()
    nf = int(g['n_fail'])
    tol = 6 * np.sqrt(N * p_fail * (1 - p_fail)) + 1
    if not abs(nf - N * p_fail) <= tol:
        fail('calibrated', f'{nf} failures in {N} trials, exact failure probability '
             f'{p_fail:.6f} predicts {N * p_fail:.1f} +- {tol:.1f}')
    # syndrome visit frequencies
    M = case['N_synd']
    rng = np.random.default_rng(case['seed'] + 1)
    code2, em2, dec2 = decoding.build(case)
    counts = {}
    pw = 1 << np.arange(H.shape[0], dtype=np.int64)
    for _ in range(M):
        e = em2.generate(code2, case['error_rate'], rng=rng)
        k = int(decoding.own_syndrome(H, e) @ pw)
        counts[k] = counts.get(k, 0) + 1
    obs = np.array([counts.get(int(k), 0) for k in uniq], dtype=float)
    ex = synd_prob * M
    big = ex >= 5
    if big.sum() >= 2:
        o = np.append(obs[big], obs[~big].sum())
        x = np.append(ex[big], ex[~big].sum())
        keep = x > 0
        stat = float(((o[keep] - x[keep]) ** 2 / x[keep]).sum())
        thr = chi2.isf(1e-12, int(keep.sum()) - 1)
        if stat > thr:
            fail('syndrome_frequencies', f'chi2={stat:.1f} > {thr:.1f} over {int(keep.sum())} syndrome classes')
    if (obs[synd_prob <= 0] > 0).any():
        fail('syndrome_support', 'a syndrome of probability zero was visited')
    return N + M, (0.01 < p_fail < 0.6), p_fail, nf / N


def eval_case(case):
    fails = []

    def fail(rel, detail):
        if len(fails) < 5:
            fails.append({'relation': rel, 'detail': detail})
    labels = [case['kind'], case['decoder']]
    if case.get('rng_kind', 'generator') != 'generator':
        labels.append('rng:' + case['rng_kind'])
    if case.get('decoder_rate') is not None and case['decoder_rate'] != case['error_rate']:
        labels.append('decoder-prior-differs-from-rate')
    aux = None
    if case['kind'] == 'consistency':
        evals, nt = consistency_case(case, fail)
        labels.append(f'schedule-len={len(case["schedule"])}')
    else:
        evals, nt, pf, est = calibration_case(case, fail)
        aux = {'exact': pf, 'estimate': est, 'N': case['N'],
               'setup': f"{case['decoder']} {case['code']['cls']}{case['code']['size']} p={case['error_rate']}"}
    tag = f"{case['decoder']}{case.get('dparams')} {case['code']['cls']}{case['code']['size']} " \
          f"r={case['direction']} p={case['error_rate']} {case.get('noise_deformation')} seed={case['seed']}"
    for f in fails:
        f['sig'] = {'decoder': case['decoder'], 'bucket': case['kind']}
        f['detail'] = tag + ': ' + f['detail']
    out = {'fails': fails, 'nontrivial': nt, 'labels': labels, 'evals': evals}
    if aux:
        out['aux'] = aux
    return out


@st.composite
def setups(draw, table):
    dec = draw(st.sampled_from(sorted(table)))
    cls, size = draw(st.sampled_from(table[dec]))
    r, nd, nk = draw(decoding.noise(code_cls=cls))
    dparams = {}
    if dec == 'BeliefPropagationOSDDecoder':
        dparams = {'osd_order': draw(st.sampled_from([0, 10])),
                   'max_bp_iter': draw(st.sampled_from([10, 1000]))}
    elif dec == 'MatchingDecoder':
        # one-sector matching (a documented option) leaves the other sector's
        # syndrome behind: trials outside the code space
        et = draw(st.sampled_from([None, None, 'X', 'Z']))
        if et is not None:
            dparams = {'error_type': et}
    return {'decoder': dec, 'dparams': dparams, 'code': domain.code_case(cls, size),
            'direction': r, 'noise_deformation': nd, 'noise_kwargs': nk,
            'error_rate': draw(st.sampled_from([0.02, 0.05, 0.1, 0.2, 0.3, 0.6, 0.75, 0.9])),
            'seed': draw(st.integers(0, 2**31 - 1))}


@st.composite
def consistency_cases(draw, max_total=60):
    table = dict(SMALL)
    for k, v in OTHER.items():
        table[k] = table.get(k, []) + v
    case = draw(setups(table))
    slow = case['decoder'] in ('UnionFindDecoder', 'SweepMatchDecoder', 'RotatedSweepMatchDecoder')
    top = max(4, max_total // (4 if slow else 1))
    sched = draw(st.lists(st.integers(0, max(1, top // 3)), min_size=1, max_size=5))
    if sum(sched) == 0:
        sched[-1] = 2
    case.update(kind='consistency', schedule=sched, n_once=8 if slow else 20)
    case['rng_kind'] = draw(st.sampled_from(['generator', 'generator', 'randomstate', 'module']))
    if draw(st.integers(0, 3)) == 0:
        case['decoder_rate'] = draw(st.sampled_from([0.02, 0.1, 0.3]))
        if draw(st.booleans()):
            # (with the decoder's prior set apart, the end points of the rate
            # range are legitimate physical rates)
            case['error_rate'] = draw(st.sampled_from([0.0, 1.0, 1.0, 0.4]))
    return case


@st.composite
def calibration_cases(draw, N=4000, N_synd=2000):
    case = draw(setups(SMALL))
    slow = case['decoder'] == 'UnionFindDecoder'
    case.update(kind='calibration', N=N // (4 if slow else 1), N_synd=N_synd)
    case['error_rate'] = draw(st.sampled_from([0.05, 0.1, 0.2, 0.3, 0.6, 0.8]))
    # a decoder tuned at a prior rate of its own (e.g. one decoder object kept
    # while the physical rate is swept): the trials are still drawn at the
    # simulation's rate, incl. its end points
    if draw(st.integers(0, 2)) == 0:
        case['decoder_rate'] = draw(st.sampled_from([0.02, 0.1, 0.3]))
        case['error_rate'] = draw(st.sampled_from([0.0, 0.05, 0.15, 0.4, 0.8, 1.0]))
    return case


def run(ctx):
    quick = ctx.tier == 'quick'
    ctx.run_hypothesis('consistency_cases', 240 if quick else 3000,
                       max_total=60 if quick else 300)
    ctx.run_hypothesis('calibration_cases', 32 if quick else 320,
                       N=3000 if quick else 40000, N_synd=1500 if quick else 20000)
    ctx.note('calibration_samples', sorted(ctx.aux, key=lambda a: a['setup'])[:12])
    if ctx.aux:
        ctx.note('calibration_worst_abs_deviation',
                 max(abs(a['exact'] - a['estimate']) for a in ctx.aux))
