"""Driver for the atheris target of C03 (thorough tier only)."""
import json
import os
import shutil
import subprocess
import sys

from vf import runner


def run_atheris(ctx, runs=2400000, shards=12):
    deps = os.path.join(runner.VERIF_DIR, '.deps')
    try:
        sys.path.insert(0, deps)
        import atheris  # noqa
    except Exception:
        ctx.note('atheris', 'not importable - fuzz target skipped')
        return
    finally:
        if deps in sys.path:
            sys.path.remove(deps)
    base = runner.scratch_dir('c03_fuzz')
    procs = []
    for i in range(shards):
        d = os.path.join(base, f'shard{i}')
        shutil.rmtree(d, ignore_errors=True)
        os.makedirs(os.path.join(d, 'corpus'))
        if i % 2 == 1:          # odd shards start from a small valid corpus
            for j, blob in enumerate([b'\x03\x01\x01\x01\x01\x00\x00\xff\x0f',
                                      bytes([200, 6, 0, 2, 2, 1, 1]) + bytes(range(256)),
                                      bytes([255, 1, 6, 1, 1, 0, 0, 1, 1])]):
                with open(os.path.join(d, 'corpus', f'seed{j}'), 'wb') as f:
                    f.write(blob)
        out = os.path.join(d, 'violation.json')
        cmd = [os.path.join(runner.VERIF_DIR, 'checks', 'fuzz_c03_target.py'), out,
               f'-runs={runs // shards}', f'-seed={ctx.seed * 100 + i + 1}',
               '-max_len=4096', f'-artifact_prefix={d}/', os.path.join(d, 'corpus')]
        env = dict(os.environ, VERIF_REPO=runner.REPO)
        procs.append((i, out, subprocess.Popen(
            cmd, env=env, stdout=subprocess.DEVNULL, stderr=subprocess.DEVNULL)))
    total = nt = 0
    from checks import c03_pauli_algebra as c03
    for i, out, p in procs:
        p.wait()
        if os.path.exists(out + '.count'):
            c = json.load(open(out + '.count'))
            total += c['n']
            nt += c['nt']
        if os.path.exists(out):
            case = json.load(open(out))
            res = runner.safe_eval(c03.eval_case, case)
            ctx.record(case, res)
    ctx.stats.evaluations += total
    ctx.note('atheris_executions', total)
    ctx.note('atheris_executions_with_anticommuting_pair', nt)
    shutil.rmtree(base, ignore_errors=True)
