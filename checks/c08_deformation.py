"""C08 - Clifford deformation is one consistent single-qubit relabelling."""
import numpy as np
from hypothesis import strategies as st

from vf import domain, gf2

PROPERTY = 'C08'
LEVEL = 'exploration'
RULE = ('(a) every (class, size, deformation name, axis kwarg) of the size '
        'family up to a bound: per-qubit relabelling table, row-by-row '
        'relabelled H / logicals, syndrome and logical effect of D(e) for '
        'basis and seeded random errors, deformed noise tables; '
        '(b) Hypothesis-generated histories on one code object: deform(name, '
        'kwargs) / touch(derived attribute) / measure, compared after every '
        'deform with a freshly built code deformed once. Non-trivial = (a) a '
        'deformation with both deformed and undeformed qubits on a non-cubic '
        'size, (b) a history with >= 2 deforms and >= 1 touch in between; '
        'distinct = distinct case dict')
ASSUMPTIONS = [
    'all offered deformations are involutions, so D and D^-1 cannot be told '
    'apart; the involution property itself is checked',
    'XZZX deforms qubits whose qubit_axis equals the chosen (or the class '
    'default) axis - taken from the property statement and get_deformation '
    'signatures',
]
MANIFEST_ENTRY = {
    'technique': 'enumeration over classes/sizes/deformations/axes with an '
                 'independent relabelling oracle (metamorphic: deformed code '
                 'on D(e) == original code on e), plus Hypothesis histories of '
                 'deform/touch calls compared against a fresh object '
                 '(model-based)',
    'level_text': 'Relabelling tables, relabelled H/logicals and the '
                  'syndrome/logical-effect equivariance are checked on every '
                  'enumerated case (basis errors decide all errors by '
                  'linearity); generated call histories are compared step by '
                  'step with a reference object.',
    'level_note': 'Sizes above the bound and histories longer than 8 steps '
                  'are not explored.',
}

TOUCH = ['stabilizer_matrix', 'logicals_x', 'logicals_z', 'Hx', 'Hz',
         'x_indices', 'z_indices', 'is_css', 'd', 'n', 'k', 'qubit_index',
         'stabilizer_index', 'n_stabilizers', 'stabilizer_types']


def relabel(M, perm_x_from, n):
    """Apply per-qubit relabelling to dense BSF rows.  `tables[i]` maps a
    Pauli letter to its image; implemented through letters to stay
    independent of the code under test."""
    raise NotImplementedError


def rows_to_letters(M, n):
    M = gf2.to_dense(M)
    out = []
    for r in M:
        out.append([('I', 'X', 'Z', 'Y')[int(r[i]) + 2 * int(r[n + i])]
                    for i in range(n)])
    return out


def letters_to_rows(L, n):
    M = np.zeros((len(L), 2 * n), dtype=np.uint8)
    for a, row in enumerate(L):
        for i, c in enumerate(row):
            if c in 'XY':
                M[a, i] = 1
            if c in 'YZ':
                M[a, n + i] = 1
    return M


def apply_tables(M, tables, n):
    L = rows_to_letters(M, n)
    return letters_to_rows(
        [[c if c == 'I' else tables[i][c] for i, c in enumerate(row)]
         for row in L], n)


def expected_table(cls, code, loc, name, kwargs):
    """What the property statement fixes about the table, or None."""
    if name == 'XZZX':
        axis = kwargs.get('deformation_axis', domain.DEFAULT_AXIS[cls])
        if code.qubit_axis(loc) == axis:
            return {'X': 'Z', 'Y': 'Y', 'Z': 'X'}
        return {'X': 'X', 'Y': 'Y', 'Z': 'Z'}
    if name == 'XY':
        return {'X': 'X', 'Y': 'Z', 'Z': 'Y'}
    return None


def get_tables(cls, code, name, kwargs, fail):
    tables = []
    qc = code.qubit_coordinates
    ident = {'X': 'X', 'Y': 'Y', 'Z': 'Z'}
    hadamard = {'X': 'Z', 'Y': 'Y', 'Z': 'X'}
    for loc in qc:
        t = dict(code.get_deformation(loc, name, **kwargs))
        if sorted(t.keys()) != ['X', 'Y', 'Z'] or sorted(t.values()) != ['X', 'Y', 'Z']:
            fail('table_bijection', f'qubit {loc}: {t}')
            return None
        if any(t[t[p]] != p for p in 'XYZ'):
            fail('table_involution', f'qubit {loc}: {t}')
        want = expected_table(cls, code, loc, name, kwargs)
        if want is not None and t != want:
            fail('table_as_stated', f'{name} {kwargs} qubit {loc} axis '
                 f'{code.qubit_axis(loc)}: {t} != {want}')
        if want is None and t not in (ident, hadamard):
            fail('table_identity_or_hadamard', f'qubit {loc}: {t}')
        tables.append(t)
    # fixed per location, independent of call order
    for loc, t in list(zip(qc, tables))[::-1][:50]:
        if dict(code.get_deformation(loc, name, **kwargs)) != t:
            fail('table_stable', f'qubit {loc}: table changed between calls')
            break
    return tables


def static_case(case, fail):
    cls, size = case['cls'], tuple(case['size'])
    name, kwargs = case['deformation'], case.get('kwargs', {})
    und = domain.build_code(cls, size)
    dfm = domain.build_code(cls, size, name, kwargs)
    n = und.n
    if dfm.n != n:
        fail('n_preserved', f'{dfm.n} != {n}')
        return {}
    if list(map(tuple, dfm.qubit_coordinates)) != list(map(tuple, und.qubit_coordinates)) \
            or list(map(tuple, dfm.stabilizer_coordinates)) != list(map(tuple, und.stabilizer_coordinates)):
        fail('coordinates_preserved', 'deformation changed coordinates/order')
        return {}
    tables = get_tables(cls, und, name, kwargs, fail)
    if tables is None:
        return {}
    tables_d = [dict(dfm.get_deformation(loc, name, **kwargs))
                for loc in dfm.qubit_coordinates]
    if tables_d != tables:
        fail('table_same_on_deformed_object', 'get_deformation differs on the deformed object')
    H0, H1 = gf2.to_dense(und.stabilizer_matrix), gf2.to_dense(dfm.stabilizer_matrix)
    for nm, A, B in (('H', H0, H1),
                     ('logicals_x', gf2.to_dense(und.logicals_x), gf2.to_dense(dfm.logicals_x)),
                     ('logicals_z', gf2.to_dense(und.logicals_z), gf2.to_dense(dfm.logicals_z))):
        want = apply_tables(A, tables, n)
        if B.shape != want.shape or not np.array_equal(B, want):
            bad = [i for i in range(min(len(B), len(want)))
                   if not np.array_equal(B[i], want[i])][:3] if B.shape == want.shape else 'shape'
            fail(f'{nm}_is_relabelled_image', f'rows {bad} of deformed {nm} '
                 f'are not the image of the undeformed rows')
    if dfm.k != und.k:
        fail('k_preserved', f'{dfm.k} != {und.k}')
    r0 = gf2.rank(gf2.rows_to_ints(H0))
    r1 = gf2.rank(gf2.rows_to_ints(H1))
    if r0 != r1:
        fail('rank_preserved', f'{r1} != {r0}')
    if not bool(dfm.is_deformed) or dfm.deformation_name != name:
        fail('deformation_recorded', f'is_deformed={dfm.is_deformed} name={dfm.deformation_name}')
    # equivariance on a basis (+ random errors)
    rng = np.random.default_rng(case.get('rseed', 0))
    basis = np.eye(2 * n, dtype=np.uint8)
    if 2 * n > 120:
        pick = rng.choice(2 * n, size=120, replace=False)
        basis = basis[np.sort(pick)]
    rand = (rng.random((20, 2 * n)) < rng.choice([0.05, 0.3, 0.5], size=(20, 1))).astype(np.uint8)
    E = np.vstack([basis, rand])
    DE = apply_tables(E, tables, n)
    for e, de in zip(E, DE):
        s0 = np.asarray(und.measure_syndrome(e)).ravel() % 2
        s1 = np.asarray(dfm.measure_syndrome(de)).ravel() % 2
        if not np.array_equal(s0, s1):
            fail('syndrome_equivariant', f'e={np.nonzero(e)[0].tolist()}: deformed '
                 f'code on D(e) has a different syndrome')
            break
        l0 = np.asarray(und.logical_errors(e)).ravel() % 2
        l1 = np.asarray(dfm.logical_errors(de)).ravel() % 2
        if not np.array_equal(l0, l1):
            fail('logical_effect_equivariant', f'e={np.nonzero(e)[0].tolist()}')
            break
    # noise side
    from panqec.error_models import PauliErrorModel
    r = case.get('direction', [0.2, 0.3, 0.5])
    p = case.get('error_rate', 0.1)
    m0 = PauliErrorModel(*r)
    m1 = PauliErrorModel(*r, deformation_name=name, deformation_kwargs=dict(kwargs))
    t0 = dict(zip('IXYZ', [np.array(a, dtype=float) for a in m0.probability_distribution(und, p)]))
    t1 = dict(zip('IXYZ', [np.array(a, dtype=float) for a in m1.probability_distribution(und, p)]))
    for i in range(n):
        for sgm in 'XYZ':
            want = t0[tables[i][sgm]][i]
            if not abs(t1[sgm][i] - want) <= 1e-15:
                fail('noise_table_relabelled', f'qubit {i} P_def({sgm})={t1[sgm][i]} '
                     f'!= P_undef({tables[i][sgm]})={want}')
                break
        else:
            continue
        break
    if not np.array_equal(t1['I'], t0['I']):
        fail('noise_identity_preserved', 'P(I) changed under deformation')
    # ... and as a probability of whole errors: P_def(e) = P_undef(D(e))
    for e, de in list(zip(E, DE))[:12]:
        for log in (False, True):
            a = float(m1.error_probability(e, und, p, log_output=log))
            b = float(m0.error_probability(de, und, p, log_output=log))
            if not (a == b or abs(a - b) <= 1e-10 * max(abs(a), abs(b))):
                fail('noise_probability_of_relabelled_error',
                     f'e={np.nonzero(e)[0].tolist()}: deformed model gives '
                     f'{"log " if log else ""}P(e)={a!r}, undeformed model gives '
                     f'{"log " if log else ""}P(D(e))={b!r}')
                break
        else:
            continue
        break
    n_def = sum(1 for t in tables if t != {'X': 'X', 'Y': 'Y', 'Z': 'Z'})
    return {'n': n, 'n_def': n_def}


def snapshot(code):
    out = {
        'H': gf2.to_dense(code.stabilizer_matrix).tolist(),
        'Lx': gf2.to_dense(code.logicals_x).tolist(),
        'Lz': gf2.to_dense(code.logicals_z).tolist(),
        'qi': sorted((tuple(k), v) for k, v in code.qubit_index.items()),
        'si': sorted((tuple(k), v) for k, v in code.stabilizer_index.items()),
        'css': bool(code.is_css),
        'xi': np.asarray(code.x_indices).tolist(),
        'zi': np.asarray(code.z_indices).tolist(),
        'n': code.n, 'k': code.k, 'd': int(code.d),
        'name': code.deformation_name, 'is_deformed': bool(code.is_deformed),
    }
    if out['css']:
        out['Hx'] = gf2.to_dense(code.Hx).tolist()
        out['Hz'] = gf2.to_dense(code.Hz).tolist()
    return out


def history_case(case, fail):
    cls, size = case['cls'], tuple(case['size'])
    code = domain.build_code(cls, size)
    n_def = 0
    touched_between = False
    nt = False
    rng = np.random.default_rng(case.get('rseed', 0))
    for step in case['steps']:
        if step[0] == 'touch':
            try:
                getattr(code, step[1])
            except ValueError:
                if step[1] not in ('Hx', 'Hz'):
                    raise
            if n_def >= 1:
                touched_between = True
        elif step[0] == 'measure':
            e = (rng.random(2 * code.n) < 0.2).astype(np.uint8)
            code.measure_syndrome(e)
            code.logical_errors(e)
            if n_def >= 1:
                touched_between = True
        else:
            _, name, kwargs = step
            code.deform(name, **kwargs)
            n_def += 1
            if n_def >= 2 and touched_between:
                nt = True
            ref = domain.build_code(cls, size, name, kwargs)
            a, b = snapshot(code), snapshot(ref)
            diff = [k for k in b if a.get(k) != b[k]]
            if diff:
                fail('deform_history_independent',
                     f'after steps {case["steps"][:case["steps"].index(step) + 1]} '
                     f'the object differs from a fresh deformed code in {diff}')
                break
            # a noise model handed this object relabels as it does on a code
            # that was never deformed (with and without explicit kwargs)
            from panqec.error_models import PauliErrorModel
            fresh = domain.build_code(cls, size)
            for nm, kw in [(m, k) for m, k in domain.deformations(cls) if m is not None] + \
                    [(m, {}) for m in domain.get_class(cls).deformation_names]:
                t_obj = PauliErrorModel(0.2, 0.3, 0.5, deformation_name=nm, deformation_kwargs=dict(kw)
                                        ).probability_distribution(code, 0.1)
                t_new = PauliErrorModel(0.2, 0.3, 0.5, deformation_name=nm, deformation_kwargs=dict(kw)
                                        ).probability_distribution(fresh, 0.1)
                if any(not np.array_equal(np.asarray(a), np.asarray(b)) for a, b in zip(t_obj, t_new)):
                    fail('noise_independent_of_code_history',
                         f'after steps {case["steps"][:case["steps"].index(step) + 1]} a noise model '
                         f'{nm} {kw} gives this object a different channel than a never-deformed code')
                    break
    return nt


def eval_case(case):
    fails = []

    def fail(rel, detail):
        if len(fails) < 6:
            fails.append({'relation': rel, 'detail': detail})
    cls, size = case['cls'], tuple(case['size'])
    if case['kind'] == 'static':
        info = static_case(case, fail)
        nt = bool(info) and 0 < info['n_def'] < info['n'] and len(set(size)) > 1
        labels = [cls, f"{case['deformation']}",
                  'axis:' + str(case.get('kwargs', {}).get('deformation_axis', 'default'))]
    else:
        nt = history_case(case, fail)
        labels = ['history', 'history:' + cls]
    for f in fails:
        f['sig'] = {'class': cls}
        f['detail'] = f'{cls}{size} {case.get("deformation")} {case.get("kwargs")}: ' + f['detail']
    return {'fails': fails, 'nontrivial': nt, 'labels': labels}


def case_sig(case):
    from checks.c01_valid_code import case_sig as s
    return s(case)


def static_cases(max_L, max_L_2d, max_color, max_n, seed):
    out = []
    dirs = domain.DIRECTION_POOL
    for i, c in enumerate(domain.all_code_cases(max_L, max_L_2d, max_color, max_n=max_n, thin=True)):
        if c['deformation'] is None:
            continue
        if c['cls'] == 'Color666ToricCode' and c['size'][0] != c['size'][1]:
            continue
        d = list(dirs[(i + seed) % len(dirs)])
        p = [0.05, 0.1, 0.3, 0.5, 1, 1.0][(i + seed) % 6]
        if (i + seed) % 3 == 0:       # 0 and 1 written as integers
            d = [int(v) if v in (0, 1) else v for v in d]
        out.append(dict(c, kind='static', rseed=seed * 7919 + i, direction=d, error_rate=p))
    return out


@st.composite
def histories(draw):
    classes = [c for c in domain.CODE_CLASSES if domain.get_class(c).deformation_names]
    cls = draw(st.sampled_from(classes))
    pool = [s for s in domain.sizes(cls, 3, 4, 2)
            if not (cls == 'Color666ToricCode' and s[0] != s[1])]
    size = draw(st.sampled_from(pool))
    defs = [(n, kw) for n, kw in domain.deformations(cls) if n is not None]
    steps = []
    for _ in range(draw(st.integers(2, 8))):
        kind = draw(st.sampled_from(['deform', 'deform', 'touch', 'touch', 'measure']))
        if kind == 'deform':
            n, kw = draw(st.sampled_from(defs))
            steps.append(['deform', n, kw])
        elif kind == 'touch':
            steps.append(['touch', draw(st.sampled_from(TOUCH))])
        else:
            steps.append(['measure'])
    n, kw = draw(st.sampled_from(defs))
    steps.append(['deform', n, kw])
    return {'kind': 'history', 'cls': cls, 'size': list(size), 'steps': steps,
            'rseed': draw(st.integers(0, 2**31 - 1))}


def run(ctx):
    if ctx.tier == 'quick':
        cases = static_cases(4, 5, 3, 250, ctx.seed)
        n_hist = 640
    else:
        cases = static_cases(6, 10, 4, 2500, ctx.seed)
        n_hist = 30000
    ctx.note('static_cases', len(cases))
    ctx.note('excluded_from_domain',
             'Color666ToricCode with L_x != L_y (logicals cannot be built: C01 known finding)')
    ctx.run_cases(cases, chunk=4)
    ctx.run_hypothesis('histories', n_hist)
