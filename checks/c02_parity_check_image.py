"""C02 - the parity-check matrix is the faithful image of the lattice
definition; coordinate-dict <-> BSF is a bijection; CSS blocks; indexing is
independent of hash randomisation."""
import hashlib
import json
import os
import subprocess
import sys

import numpy as np
from hypothesis import strategies as st

from vf import domain, gf2, runner

PROPERTY = 'C02'
LEVEL = 'exploration'
RULE = ('(a) library codes: the C01 size family x deformations, each with '
        'seeded operator dicts / binary vectors for the round trips; '
        '(b) Hypothesis-generated user-defined StabilizerCode subclasses '
        '(arbitrary integer coordinates, arbitrary X/Y/Z supports, optional '
        'CSS structure); (c) child interpreters with different '
        'PYTHONHASHSEED. Non-trivial = code with a stabilizer of weight >= 2 '
        'whose generated operator contains a Y (library) / >= 2 qubits '
        'shared between generators (user-defined) / a pair of hash seeds '
        'compared; distinct = distinct case dict')
ASSUMPTIONS = [
    'user-defined codes follow the documented coordinate API: coordinate '
    'tuples of ints, disjoint qubit/stabilizer sets, get_stabilizer returns '
    'a fresh non-empty dict over qubit coordinates',
    'hash randomisation is sampled (8 seeds), not exhausted',
]
MANIFEST_ENTRY = {
    'technique': 'enumeration of library codes + Hypothesis-generated '
                 'user-defined codes; own BSF encoder as oracle; round-trip '
                 'and metamorphic (CSS sector) relations; differential run '
                 'under several PYTHONHASHSEED values',
    'level_text': 'Row-by-row comparison of H with an independent encoding of '
                  'get_stabilizer for all enumerated library codes and '
                  'thousands of generated user codes; bijection and CSS '
                  'sector relations on generated operators; SHA-256 of '
                  'coordinates/H/logicals compared across interpreters with '
                  'different hash seeds.',
    'level_note': 'Only the documented coordinate API is generated; hash '
                  'seeds are sampled.',
}


def encode(op, qindex, n):
    """Own BSF encoder: dict location->pauli to (x_int, z_int)."""
    x = z = 0
    for loc, p in op.items():
        i = qindex[tuple(loc)]
        if p in ('X', 'Y'):
            x ^= 1 << i
        if p in ('Y', 'Z'):
            z ^= 1 << i
    return x | (z << n)


def structure_checks(code, rng, fail, vec_checks=6):
    """Relations of C02 on one code object. Returns info dict."""
    qc = list(code.qubit_coordinates)
    sc = list(code.stabilizer_coordinates)
    n, m = len(qc), len(sc)
    if code.n != n:
        fail('n', f'code.n={code.n} but {n} qubit coordinates')
    if len(set(map(tuple, qc))) != n:
        fail('qubit_coordinates_distinct', f'{n - len(set(map(tuple, qc)))} duplicates')
    if len(set(map(tuple, sc))) != m:
        fail('stabilizer_coordinates_distinct', f'{m - len(set(map(tuple, sc)))} duplicates')
    inter = set(map(tuple, qc)) & set(map(tuple, sc))
    if inter:
        fail('qubit_stabilizer_disjoint', f'{sorted(inter)[:3]} are both')
    if code.qubit_index != {tuple(loc): i for i, loc in enumerate(qc)}:
        fail('qubit_index', 'qubit_index is not the enumeration of qubit_coordinates')
    if code.stabilizer_index != {tuple(loc): i for i, loc in enumerate(sc)}:
        fail('stabilizer_index', 'stabilizer_index is not the enumeration')
    qindex = {tuple(loc): i for i, loc in enumerate(qc)}
    H = code.stabilizer_matrix
    if H.shape != (m, 2 * n):
        fail('H_shape', f'{H.shape} != ({m},{2 * n})')
        return {}
    Hd = np.asarray(H.toarray())
    if not set(np.unique(Hd).tolist()) <= {0, 1}:
        fail('H_binary', f'entries {np.unique(Hd).tolist()}')
    rows = gf2.rows_to_ints(Hd)
    max_w = 0
    qset = set(qindex)
    for i, loc in enumerate(sc):
        op = code.get_stabilizer(loc)
        if len(op) == 0:
            fail('stabilizer_nonempty', f'stabilizer {loc} has empty support')
            continue
        bad = [q for q in op if tuple(q) not in qset]
        if bad:
            fail('support_in_qubits', f'stabilizer {loc} acts on non-qubit {bad[:2]}')
            continue
        badp = [p for p in op.values() if p not in ('X', 'Y', 'Z')]
        if badp:
            fail('pauli_letters', f'stabilizer {loc} has letters {badp[:2]}')
            continue
        max_w = max(max_w, len(op))
        want = encode(op, qindex, n)
        if rows[i] != want:
            fail('row_is_image',
                 f'row {i} of H differs from the BSF image of '
                 f'get_stabilizer({loc}) on columns '
                 f'{[j for j in range(2 * n) if (rows[i] ^ want) >> j & 1][:6]}')
            break
    # logicals are images too
    for name, getter, mat in (('x', code.get_logicals_x, code.logicals_x),
                              ('z', code.get_logicals_z, code.logicals_z)):
        ops = getter()
        L = gf2.rows_to_ints(mat) if len(ops) else []
        if len(L) != len(ops):
            fail('logicals_count', f'{len(ops)} operators, {len(L)} rows')
            continue
        for i, op in enumerate(ops):
            if any(tuple(q) not in qset for q in op):
                fail('logical_support_in_qubits', f'logical {name}_{i}')
            elif encode(op, qindex, n) != L[i]:
                fail('logical_row_is_image', f'logicals_{name}[{i}]')
    # bijection dict <-> bsf
    has_y = False
    for _ in range(vec_checks):
        w = int(rng.integers(0, min(n, 12) + 1))
        locs = rng.choice(n, size=w, replace=False) if w else []
        op = {tuple(qc[int(i)]): 'XYZ'[int(rng.integers(0, 3))] for i in locs}
        has_y = has_y or ('Y' in op.values())
        v = code.to_bsf(dict(op))
        want = encode(op, qindex, n)
        if np.asarray(v).shape != (2 * n,) or gf2.row_to_int(v) != want \
                or not set(np.unique(v).tolist()) <= {0, 1}:
            fail('to_bsf', f'to_bsf({op}) wrong')
            break
        back = code.from_bsf(np.asarray(v))
        if {tuple(k): p for k, p in back.items()} != op:
            fail('from_bsf(to_bsf)', f'{op} -> {back}')
            break
        # sparse (1,2n) row form
        from scipy.sparse import csr_matrix
        back2 = code.from_bsf(csr_matrix(np.asarray(v, dtype=np.uint8).reshape(1, -1)))
        if {tuple(k): p for k, p in back2.items()} != op:
            fail('from_bsf_sparse_row', f'{op} -> {back2}')
            break
        back3 = code.from_bsf(np.asarray(v, dtype=np.uint8).reshape(1, -1))
        if {tuple(k): p for k, p in back3.items()} != op:
            fail('from_bsf_2d_row', f'{op} -> {back3}')
            break
        # vector -> dict -> vector
        vec = (rng.random(2 * n) < 0.3).astype(np.uint8)
        d = code.from_bsf(vec)
        if gf2.row_to_int(code.to_bsf(d)) != gf2.row_to_int(vec):
            fail('to_bsf(from_bsf)', f'vector {vec.tolist()[:20]}..')
            break
    # the dictionary depends on the value of the vector only, not on how a
    # sparse row happens to store it: rows produced the way the library (and
    # users) produce them - sums reduced with `data %= 2` (explicitly stored
    # zeros where two ones cancel), matrix products `selection @ H`
    # (unsorted column indices), coo rows in arbitrary order
    from scipy.sparse import csr_matrix as _csr, coo_matrix as _coo

    def decode(vec):
        out = {}
        for q in range(n):
            xz = (int(vec[q]) & 1, int(vec[n + q]) & 1)
            if xz != (0, 0):
                out[tuple(qc[q])] = {(1, 0): 'X', (0, 1): 'Z', (1, 1): 'Y'}[xz]
        return out

    for t in range(max(2, vec_checks // 2)):
        sel = (rng.random((1, m)) < min(0.5, 3.0 / max(m, 1))).astype(np.uint8)
        sel[0, rng.choice(m, size=min(m, 2), replace=False)] = 1
        dense = (sel.astype(np.int64) @ Hd.astype(np.int64))[0] % 2
        noise_ = (rng.random(2 * n) < 1.5 / n).astype(np.int64)
        forms = []
        prod = _csr(sel) @ H
        prod.data %= 2
        forms.append(('csr_product', prod, dense))
        picked = np.nonzero(sel[0])[0]
        acc = H[int(picked[0])]
        for i in picked[1:]:
            acc = acc + H[int(i)]
            acc.data %= 2
        forms.append(('csr_sum_mod2', acc, dense))
        w = (dense + noise_) % 2
        acc2 = _csr(dense.astype(np.uint8).reshape(1, -1)) + _csr(noise_.astype(np.uint8).reshape(1, -1))
        acc2.data %= 2
        forms.append(('csr_sum_with_stored_zeros', acc2, w))
        cols_ = np.nonzero(w)[0]
        perm = rng.permutation(len(cols_))
        forms.append(('coo_shuffled', _coo((np.ones(len(cols_), dtype=np.uint8),
                                            (np.zeros(len(cols_), dtype=int), cols_[perm])),
                                           shape=(1, 2 * n)), w))
        forms.append(('csr_unsorted', _csr((np.ones(len(cols_), dtype=np.uint8), cols_[perm],
                                            np.array([0, len(cols_)])), shape=(1, 2 * n)), w))
        for tag, row, vec_ in forms:
            got = code.from_bsf(row)
            if {tuple(k): p for k, p in got.items()} != decode(vec_):
                diff = {k: (got.get(k), decode(vec_).get(k))
                        for k in set(got) | set(decode(vec_))
                        if got.get(k) != decode(vec_).get(k)}
                fail('from_bsf_sparse_storage',
                     f'{tag}: from_bsf of a sparse row differs from the dictionary of the '
                     f'vector it stores on {dict(list(diff.items())[:3])} (got, want)')
                break
    # CSS structure
    xi = np.asarray(code.x_indices)
    zi = np.asarray(code.z_indices)
    want_x = (Hd[:, :n].sum(axis=1) > 0)
    want_z = (Hd[:, n:].sum(axis=1) > 0)
    if not (np.array_equal(xi, want_x) and np.array_equal(zi, want_z)):
        fail('xz_indices', 'x_indices/z_indices are not the nonzero-half masks')
    css_true = not bool(np.any(want_x & want_z))
    if bool(code.is_css) != css_true:
        fail('is_css', f'is_css={code.is_css}, rows mixed={not css_true}')
    if css_true:
        if not np.all(want_x ^ want_z):
            fail('css_partition', 'X and Z row masks do not partition the rows')
        Hx = np.asarray(code.Hx.toarray())
        Hz = np.asarray(code.Hz.toarray())
        if not np.array_equal(Hx, Hd[want_x][:, :n]):
            fail('Hx_block', 'Hx != H[x_indices, :n]')
        if not np.array_equal(Hz, Hd[want_z][:, n:]):
            fail('Hz_block', 'Hz != H[z_indices, n:]')
        if Hd[want_x][:, n:].any() or Hd[want_z][:, :n].any():
            fail('css_other_half_zero', 'X rows have Z part or vice versa')
        # metamorphic: X-part of syndrome depends only on Z-part of error
        e1 = (rng.random(2 * n) < 0.3).astype(np.uint8)
        e2 = e1.copy()
        e2[:n] = (rng.random(n) < 0.5).astype(np.uint8)   # replace X part
        s1 = np.asarray(code.measure_syndrome(e1)).ravel()
        s2 = np.asarray(code.measure_syndrome(e2)).ravel()
        if not np.array_equal(code.extract_x_syndrome(s1),
                              code.extract_x_syndrome(s2)):
            fail('x_syndrome_depends_on_x_error',
                 'changing the X part of the error changed the X-stabilizer syndrome')
        e3 = e1.copy()
        e3[n:] = (rng.random(n) < 0.5).astype(np.uint8)   # replace Z part
        s3 = np.asarray(code.measure_syndrome(e3)).ravel()
        if not np.array_equal(code.extract_z_syndrome(s1),
                              code.extract_z_syndrome(s3)):
            fail('z_syndrome_depends_on_z_error',
                 'changing the Z part of the error changed the Z-stabilizer syndrome')
        if len(code.extract_x_syndrome(s1)) != int(want_x.sum()) or \
                len(code.extract_z_syndrome(s1)) != int(want_z.sum()):
            fail('extract_syndrome_length', 'sector syndrome length')
    else:
        for attr in ('Hx', 'Hz'):
            try:
                getattr(code, attr)
                fail(f'{attr}_on_non_css', f'{attr} did not raise on a non-CSS code')
            except ValueError:
                pass
    return {'n': n, 'm': m, 'max_w': max_w, 'has_y': has_y, 'css': css_true}


# ---------------------------------------------------------------------------
# user-defined codes

from vf.usercode import make_user_code, scrambled_specs  # noqa: E402


@st.composite
def user_specs(draw):
    dim = draw(st.sampled_from([2, 3]))
    # a small box makes neighbouring (and, halved, same-cell) positions likely
    coord = st.tuples(*[draw(st.sampled_from([st.integers(-50, 200), st.integers(-3, 6)]))] * dim)
    n = draw(st.integers(1, 9))
    m = draw(st.integers(1, 8))
    pts = draw(st.lists(coord, min_size=n + m, max_size=n + m, unique=True))
    # stabilizer coordinates may carry an extra index (as the colour codes do)
    qubits, stabs = pts[:n], pts[n:]
    css = draw(st.booleans())
    stab_ops = []
    for j in range(m):
        supp = draw(st.lists(st.integers(0, n - 1), min_size=1,
                             max_size=min(n, 5), unique=True))
        if css:
            p = draw(st.sampled_from('XZ'))
            stab_ops.append([[i, p] for i in supp])
        else:
            stab_ops.append([[i, draw(st.sampled_from('XYZ'))] for i in supp])
    k = draw(st.integers(1, 3))

    def logical():
        supp = draw(st.lists(st.integers(0, n - 1), min_size=1,
                             max_size=min(n, 4), unique=True))
        return [[i, draw(st.sampled_from('XYZ'))] for i in supp]
    return {'kind': 'user', 'dim': dim, 'qubits': [list(q) for q in qubits],
            'stabs': [list(s) for s in stabs], 'stab_ops': stab_ops,
            'logicals_x': [logical() for _ in range(k)],
            'logicals_z': [logical() for _ in range(k)],
            'coord_style': draw(st.sampled_from(['int', 'int', 'half', 'npint'])),
            'stored_dicts': draw(st.booleans()),
            'deformable': draw(st.booleans()), 'deform_now': draw(st.booleans()),
            'hadamard_on': draw(st.lists(st.integers(0, n - 1), max_size=n, unique=True)),
            'rseed': draw(st.integers(0, 2**31 - 1))}


# ---------------------------------------------------------------------------
# hash seeds

_CHILD = r'''
import sys, json, hashlib, io, contextlib
sys.path.insert(0, sys.argv[1]); sys.path.insert(0, sys.argv[2])
with contextlib.redirect_stdout(io.StringIO()), contextlib.redirect_stderr(io.StringIO()):
    from vf import domain
    import numpy as np
    out = {}
    for case in json.loads(sys.argv[3]):
        try:
            code = domain.build_from_case(case)
            h = hashlib.sha256()
            h.update(repr(list(map(tuple, code.qubit_coordinates))).encode())
            h.update(repr(list(map(tuple, code.stabilizer_coordinates))).encode())
            H = code.stabilizer_matrix.toarray().astype(np.uint8)
            h.update(H.tobytes()); h.update(repr(H.shape).encode())
            h.update(np.asarray(code.logicals_x, dtype=np.uint8).tobytes())
            h.update(np.asarray(code.logicals_z, dtype=np.uint8).tobytes())
            h.update(repr(sorted(code.qubit_index.items())).encode())
            h.update(repr(sorted(code.stabilizer_index.items())).encode())
            out[json.dumps(case, sort_keys=True)] = h.hexdigest()
        except Exception as exc:
            out[json.dumps(case, sort_keys=True)] = 'raised ' + type(exc).__name__
print(json.dumps(out))
'''


def digests_under_hashseed(cases, hashseed):
    env = dict(os.environ)
    env['PYTHONHASHSEED'] = str(hashseed)
    p = subprocess.run(
        [sys.executable, '-W', 'ignore', '-c', _CHILD, runner.REPO,
         runner.VERIF_DIR, json.dumps(cases)],
        env=env, capture_output=True, text=True, timeout=1800)
    if p.returncode != 0:
        raise runner.HarnessError('hash-seed child failed: ' + p.stderr[-800:])
    return json.loads(p.stdout.strip().splitlines()[-1])


def eval_case(case):
    fails = []

    def fail(rel, detail):
        fails.append({'relation': rel, 'detail': detail})

    kind = case.get('kind', 'library')
    if kind == 'hashseed':
        a = digests_under_hashseed(case['codes'], case['seeds'][0])
        b = digests_under_hashseed(case['codes'], case['seeds'][1])
        diff = [k for k in a if a[k] != b.get(k)]
        for k in diff[:3]:
            fail('indexing_independent_of_hash_seed',
                 f'{k}: digest differs between PYTHONHASHSEED={case["seeds"][0]} '
                 f'and {case["seeds"][1]}')
            fails[-1]['sig'] = {'class': json.loads(k)['cls']}
        return {'fails': fails, 'nontrivial': len(a) > 0,
                'labels': ['hashseed'], 'evals': 2 * len(a)}

    rng = np.random.default_rng(case.get('rseed', 0))
    if kind == 'scrambled':
        # genuine (mostly non-CSS) stabilizer code built through the
        # coordinate API from a random Clifford circuit
        code = make_user_code(case)
        info = structure_checks(code, rng, fail, vec_checks=3)
        from checks.c01_valid_code import code_relations
        more, _ = code_relations(code)
        fails.extend(more)
        return {'fails': fails, 'nontrivial': info.get('max_w', 0) >= 2,
                'labels': ['scrambled', 'scr-css' if info.get('css') else 'scr-noncss']}
    if kind == 'user':
        code = make_user_code(case)
        info = structure_checks(code, rng, fail, vec_checks=3)
        shared = 0
        cnt = {}
        for op in case['stab_ops']:
            for i, _ in op:
                cnt[i] = cnt.get(i, 0) + 1
        shared = sum(1 for v in cnt.values() if v >= 2)
        labels = ['user', 'user-css' if info.get('css') else 'user-noncss',
                  f'user-dim{case["dim"]}', f"coords:{case.get('coord_style', 'int')}"]
        if case.get('deformable') and case.get('deform_now'):
            labels.append('user-deformed' + (',stored-dicts' if case.get('stored_dicts') else ''))
        return {'fails': fails, 'nontrivial': shared >= 2, 'labels': labels}

    code = domain.build_from_case(case)
    info = structure_checks(code, rng, fail)
    for f in fails:
        f['sig'] = {'class': case['cls']}
        f['detail'] = f"{case['cls']}{tuple(case['size'])} " \
                      f"{case.get('deformation')} {case.get('kwargs')}: " + f['detail']
    labels = [case['cls'], 'css' if info.get('css') else 'noncss']
    nt = bool(info) and info['max_w'] >= 2 and info['has_y']
    return {'fails': fails, 'nontrivial': nt, 'labels': labels}


def case_sig(case):
    if case.get('kind', 'library') == 'library':
        from checks.c01_valid_code import case_sig as s
        return s(case)
    return {}


@st.composite
def scrambled_user_specs(draw):
    spec = draw(scrambled_specs(min_n=2, max_n=8))
    spec['rseed'] = draw(st.integers(0, 2**31 - 1))
    return spec


def lib_cases(max_L, max_L_2d, max_color, max_n):
    cases = domain.all_code_cases(max_L, max_L_2d, max_color, max_n=max_n, thin=True)
    # the hollow lattices decide per generator family whether a cell lies in
    # the hole: every (also anisotropic) size up to 6, undeformed
    have = {(c['cls'], tuple(c['size'])) for c in cases}
    cases += [c for c in domain.all_code_cases(6, 6, 1, max_n=900, with_deformations=False,
                                               classes=['HollowRhombicCode', 'HollowPlanar3DCode'])
              if (c['cls'], tuple(c['size'])) not in have]
    out = []
    for i, c in enumerate(cases):
        c = dict(c)
        c['kind'] = 'library'
        c['rseed'] = i
        # sizes on which logicals cannot be built are C01's business
        if c['cls'] == 'Color666ToricCode' and c['size'][0] != c['size'][1]:
            continue
        out.append(c)
    return out


def heavy_user_cases(quick):
    """User-defined codes with generators of very large weight (error-
    detecting codes with the two generators X^n, Z^n; Shor-type gauge
    rows): weights around the multiples of 256, where byte-sized counters
    wrap."""
    out = []
    ns = [255, 256, 257, 512] if quick else [254, 255, 256, 257, 258, 511, 512, 513, 768, 1024]
    for n in ns:
        qubits = [[2 * i + 1, 0] for i in range(n)]
        lx = [[[0, 'X'], [1, 'X']]]
        lz = [[[0, 'Z'], [1, 'Z']]]
        allx = [[i, 'X'] for i in range(n)]
        allz = [[i, 'Z'] for i in range(n)]
        out.append({'kind': 'user', 'dim': 2, 'qubits': qubits, 'stabs': [[0, 1], [2, 1]],
                    'stab_ops': [allx, allz], 'logicals_x': lx, 'logicals_z': lz, 'rseed': n})
        # X part of weight 256 inside a mixed generator, a light one next to it
        if n > 256:
            mixed = [[i, 'X'] for i in range(256)] + [[i, 'Z'] for i in range(256, n)]
            out.append({'kind': 'user', 'dim': 2, 'qubits': qubits, 'stabs': [[0, 1], [2, 1], [4, 1]],
                        'stab_ops': [mixed, [[0, 'Z'], [1, 'Z']], allz[:256]],
                        'logicals_x': lx, 'logicals_z': lz, 'rseed': n + 1})
    return out


def run(ctx):
    ctx.run_cases(heavy_user_cases(ctx.tier == 'quick'), chunk=1)
    if ctx.tier == 'quick':
        cases = lib_cases(3, 5, 3, 400)
        n_user = 3000
        hs_codes = [c for c in domain.all_code_cases(2, 3, 1, max_n=200)
                    if not (c['cls'] == 'Color666ToricCode'
                            and c['size'][0] != c['size'][1])]
        seeds = [0, 1, 2, 1000 + ctx.seed]
    else:
        cases = lib_cases(6, 12, 4, 3000)
        n_user = 120000
        hs_codes = [c for c in domain.all_code_cases(3, 4, 2, max_n=400)
                    if not (c['cls'] == 'Color666ToricCode'
                            and c['size'][0] != c['size'][1])]
        seeds = [0, 1, 2] + [1000 + ctx.seed * 7 + i for i in range(5)]
    for c in cases:
        c['rseed'] = c['rseed'] + 100003 * ctx.seed
    ctx.note('library_cases', len(cases))
    ctx.note('excluded_from_domain',
             'Color666ToricCode with L_x != L_y (logicals cannot be built: C01 known finding)')
    ctx.run_cases(cases, chunk=6)
    ctx.run_hypothesis('user_specs', n_user)
    ctx.run_hypothesis('scrambled_user_specs', n_user // 3)
    # hash seeds: split codes into chunks, compare seed s_i with s_0
    chunks = [hs_codes[i::8] for i in range(8)]
    hs_cases = [{'kind': 'hashseed', 'codes': ch, 'seeds': [seeds[0], s]}
                for s in seeds[1:] for ch in chunks if ch]
    ctx.note('hash_seeds', seeds)
    ctx.run_cases(hs_cases, chunk=1)
