"""C19 - generated input files cover exactly the requested parameter grid."""
import collections
import os
import shutil
from fractions import Fraction

import numpy as np
from hypothesis import strategies as st

from vf import domain, runner

PROPERTY = 'C19'
LEVEL = 'exploration'
RULE = ('Hypothesis draws CLI arguments of `panqec generate-input`: size '
        'lists (2-D and 3-D, 1..4 entries, "LxL", "LxLxL" and single-number '
        'forms), bias axis, 1..4 bias ratios incl. inf and non-integers, '
        'probability spec (single / comma list / min:max:step on a decimal '
        'grid with 1..150 steps), code / decoder / noise class names, '
        'optional deformation, label, method. The real click command runs in '
        'an isolated directory and every written file is read back with the '
        'simulator\'s own reader. Oracle: the requested product (size x bias '
        'ratio x error rate) as a multiset; direction formula; arithmetic '
        'progression. Non-trivial = >= 2 bias ratios and a range whose step '
        'is not a binary fraction; distinct = distinct argument tuple')
ASSUMPTIONS = [
    'range specifications lie on a decimal grid (min = i*10^-a, step = '
    'j*10^-b, max = min + m*step) as users type them',
    'progression values are compared to nine significant digits',
]
MANIFEST_ENTRY = {
    'technique': 'Hypothesis-generated command lines executed through click\'s '
                 'CliRunner, round trip through the simulator\'s reader; '
                 'reference model = requested Cartesian grid (multiset) and '
                 'exact rational arithmetic for ranges and bias directions',
    'level_text': 'The union of simulations read back from all written files '
                  'is compared with the requested grid; range endpoints and '
                  'counts are decided with exact rationals.',
    'level_note': 'Only decimal-grid range specs are generated.',
}

CODE_DEC = {
    'Toric2DCode': ['MatchingDecoder', 'BeliefPropagationOSDDecoder', 'UnionFindDecoder'],
    'Planar2DCode': ['MatchingDecoder', 'BeliefPropagationOSDDecoder'],
    'RotatedPlanar2DCode': ['MatchingDecoder', 'BeliefPropagationOSDDecoder'],
    'Toric3DCode': ['BeliefPropagationOSDDecoder', 'SweepMatchDecoder'],
    'RotatedPlanar3DCode': ['BeliefPropagationOSDDecoder', 'RotatedSweepMatchDecoder'],
    'XCubeCode': ['BeliefPropagationOSDDecoder'],
    'RhombicPlanarCode': ['BeliefPropagationOSDDecoder'],
}


def frac(s):
    return Fraction(s)


def expected_rates(prob):
    if ':' in prob:
        parts = prob.split(':')
        lo, hi = frac(parts[0]), frac(parts[1])
        step = frac(parts[2]) if len(parts) == 3 else Fraction(5, 1000)
        m = (hi - lo) / step
        assert m.denominator == 1
        return [float(lo + i * step) for i in range(int(m) + 1)], float(hi)
    if ',' in prob:
        return [float(s) for s in prob.split(',')], None
    return [float(prob)], None


def rkey(r):
    """Error rates are compared to nine significant digits (absolute
    rounding would identify 2e-7 with 0)."""
    return 0.0 if r == 0 else float(f'{r:.8e}')


def expected_direction(bias, eta):
    if eta == 'inf':
        rb = Fraction(1)
    else:
        e = Fraction(eta)
        rb = e / (1 + e)
    ro = (1 - rb) / 2
    d = {'X': ro, 'Y': ro, 'Z': ro}
    d[bias] = rb
    return (float(d['X']), float(d['Y']), float(d['Z']))


def eval_case(case):
    from click.testing import CliRunner
    from panqec.cli import cli, read_range_input, read_bias_ratios
    from panqec.simulation import read_input_json
    fails = []

    def fail(rel, detail):
        if len(fails) < 6:
            fails.append({'relation': rel, 'detail': detail})

    a = case['args']
    work = os.path.join(runner.scratch_dir('c19'), f'p{os.getpid()}')
    shutil.rmtree(work, ignore_errors=True)
    os.makedirs(work)
    argv = ['generate-input', '-d', work, '--code_class', a['code'],
            '--decoder_class', a['decoder'], '-s', ','.join(a['sizes']),
            '--bias', a['bias'], '--eta', ','.join(a['etas']), '--prob', a['prob'],
            '--noise_class', 'PauliErrorModel', '-m', a['method']]
    if a.get('deformation'):
        argv += ['--deformation_name', a['deformation']]
    if a.get('label'):
        argv += ['-l', a['label']]
    res = CliRunner().invoke(cli, argv)
    if res.exit_code != 0:
        fail('command_succeeds', f'exit {res.exit_code}: {res.output[-300:]} {res.exception!r}')
        shutil.rmtree(work, ignore_errors=True)
        return {'fails': fails, 'nontrivial': False, 'labels': ['cmd-failed']}
    rates, hi = expected_rates(a['prob'])
    # unit level: readers
    got_rates = read_range_input(a['prob'])
    scale = max([abs(x) for x in rates] + [1e-300])
    if len(got_rates) != len(rates) or any(not abs(g - w) <= 1e-9 * scale for g, w in zip(got_rates, rates)):
        fail('range_is_arithmetic_progression',
             f"--prob {a['prob']}: {len(got_rates)} values ending {got_rates[-3:]}, expected "
             f"{len(rates)} values ending {rates[-3:]}")
    if hi is not None and got_rates and max(got_rates) > hi + 1e-12:
        fail('range_within_max', f"--prob {a['prob']}: value {max(got_rates)!r} beyond max {hi}")
    etas = read_bias_ratios(','.join(a['etas']))
    for s, e in zip(a['etas'], etas):
        want = float('inf') if s == 'inf' else float(s)
        if float(e) != want:
            fail('bias_ratio_parsed', f'{s} -> {e}')
    # integration level: files read back by the simulator
    dim = domain.DIM[a['code']]
    sizes = []
    for s in a['sizes']:
        L = [int(x) for x in s.split('x')]
        Lx = L[0]
        Ly = L[1] if len(L) >= 2 else L[0]
        Lz = L[2] if len(L) == 3 else L[0]
        sizes.append((Lx, Ly) if dim == 2 else (Lx, Ly, Lz))
    want = collections.Counter()
    for size in sizes:
        for eta in a['etas']:
            d = expected_direction(a['bias'], eta)
            for r in rates:
                want[(size, tuple(round(x, 12) for x in d), a.get('deformation'), rkey(r))] += 1
    got = collections.Counter()
    files = sorted(os.listdir(os.path.join(work, 'inputs')))
    for fn in files:
        batch = read_input_json(os.path.join(work, 'inputs', fn),
                                os.path.join(work, 'out.json'))
        for sim in batch._simulations:
            # a splitting simulation covers all its error rates at once
            sim_rates = ([sim.error_rate] if hasattr(sim, 'error_rate')
                         else [float(x) for x in sim.error_rates])
            dec_obj = sim.decoder if hasattr(sim, 'decoder') else sim.decoders[0]
            # every (size, bias, rate) combination is simulated with a decoder
            # built for that rate
            pairs = ([(sim.decoder, sim.error_rate)] if hasattr(sim, 'decoder')
                     else list(zip(sim.decoders, [float(x) for x in sim.error_rates])))
            for dec_i, rate_i in pairs:
                if rkey(float(dec_i.error_rate)) != rkey(float(rate_i)):
                    fail('decoder_built_for_its_rate',
                         f'{type(sim).__name__} runs error rate {rate_i!r} with a decoder built '
                         f'for error rate {dec_i.error_rate!r} (rates {list(sim_rates)})')
                    break
            want_cls = 'SplittingSimulation' if a['method'] == 'splitting' else 'DirectSimulation'
            if type(sim).__name__ != want_cls:
                fail('method', f'{type(sim).__name__} built for method {a["method"]}')
            d = sim.error_model.direction
            if not abs(sum(d) - 1) <= 1e-12:
                fail('direction_sums_to_one', f'{d}')
            ax = 'XYZ'.index(a['bias'])
            if d[ax] + 1e-15 < max(d):
                fail('direction_matches_bias', f'{d} for bias {a["bias"]}')
            if type(sim.code).__name__ != a['code'] or type(dec_obj).__name__ != a['decoder']:
                fail('class_names', f'{type(sim.code).__name__}/{type(dec_obj).__name__}')
            for rate in sim_rates:
                got[(tuple(sim.code.size), tuple(round(float(x), 12) for x in d),
                     sim.error_model.params.get('deformation_name'),
                     rkey(float(rate)))] += 1
    if got != want:
        missing = want - got
        extra = got - want
        fail('files_cover_requested_grid',
             f'{sum(got.values())} simulations read back from {files}, {sum(want.values())} requested; '
             f'{sum(missing.values())} missing e.g. {list(missing)[:2]}; '
             f'{sum(extra.values())} unexpected e.g. {list(extra)[:2]}')
    shutil.rmtree(work, ignore_errors=True)
    step_binary = True
    if ':' in a['prob']:
        parts = a['prob'].split(':')
        st_ = frac(parts[2]) if len(parts) == 3 else Fraction(5, 1000)
        den = st_.denominator
        step_binary = (den & (den - 1)) == 0
    nt = len(a['etas']) >= 2 and not step_binary
    labels = ['etas>=2' if len(a['etas']) >= 2 else 'eta=1',
              'range' if ':' in a['prob'] else ('list' if ',' in a['prob'] else 'single'),
              'step-binary' if step_binary else 'step-decimal', a['method']]
    for f in fails:
        f['sig'] = {'bucket': f['relation']}
    return {'fails': fails, 'nontrivial': nt, 'labels': labels,
            'evals': max(1, sum(want.values()))}


@st.composite
def prob_specs(draw):
    kind = draw(st.sampled_from(['single', 'list', 'range', 'range', 'range2', 'range-small']))
    # incl. the low-rate regime (what the splitting method is for): values
    # with significant digits far beyond the sixth decimal
    small = ['2e-7', '5e-6', '1.5e-6', '0.0000005', '3e-9', '0.00012345678', '1e-3']
    if kind == 'single':
        return draw(st.sampled_from(['0.1', '0.05', '1e-2', '0.3', '0', '0.0', '1'] + small))
    if kind == 'list':
        vals = draw(st.lists(st.sampled_from(['0.01', '0.05', '0.1', '0.15', '0.2', '0.25', '0.3', '0']
                                             + small),
                             min_size=2, max_size=5, unique=True))
        return ','.join(vals)
    a = draw(st.integers(1, 3))
    b = draw(st.integers(1, 3))
    if kind == 'range-small':
        a = draw(st.integers(4, 9))
        b = draw(st.integers(a, 10))
        kind = 'range2'
    i = draw(st.integers(0, 40))
    j = draw(st.sampled_from([1, 2, 3, 4, 5, 7, 25]))
    m = draw(st.integers(1, 150 if kind == 'range' else 12))
    lo = Fraction(i, 10 ** a)
    step = Fraction(j, 10 ** b)
    hi = lo + m * step
    if hi > 1:
        m = max(1, int((1 - lo) / step))
        hi = lo + m * step

    def dec(f):
        s = f'{float(f):.12f}'.rstrip('0')
        return s + '0' if s.endswith('.') else s
    if kind == 'range2' and step == Fraction(5, 1000):
        return f'{dec(lo)}:{dec(hi)}'
    return f'{dec(lo)}:{dec(hi)}:{dec(step)}'


@st.composite
def cli_cases(draw):
    code = draw(st.sampled_from(sorted(CODE_DEC)))
    dim = domain.DIM[code]
    dec = draw(st.sampled_from(CODE_DEC[code]))
    sizes = []
    for _ in range(draw(st.integers(1, 4))):
        form = draw(st.sampled_from(['full', 'full', 'single', 'xy']))
        top = 4 if dim == 2 else 3
        L = [draw(st.integers(2, top)) for _ in range(3)]
        # two-digit dimensions (threshold studies go to L = 10 ... 20)
        if draw(st.integers(0, 3)) == 0:
            L[draw(st.integers(0, dim - 1))] = draw(st.sampled_from([10, 11, 12, 16] if dim == 2
                                                                   else [10, 12]))
        if form == 'single' or (dim == 3 and form == 'xy'):
            # [L] means L in every direction
            sizes.append(f'{L[0]}')
        elif dim == 2:
            sizes.append(f'{L[0]}x{L[1]}')
        else:
            sizes.append(f'{L[0]}x{L[1]}x{L[2]}')
    # incl. ratios that agree to two or three decimals (a fine bias sweep)
    etas = draw(st.lists(st.sampled_from(['0.5', '1', '3', '10', '30', '100', '2.5', 'inf',
                                          '0.502', '0.504', '10.001', '10.004', '0.75',
                                          '0.752', '1000', '1e4']),
                         min_size=1, max_size=4, unique=True))
    args = {'code': code, 'decoder': dec, 'sizes': sizes,
            'bias': draw(st.sampled_from('XYZ')), 'etas': etas,
            'prob': draw(prob_specs()),
            'method': draw(st.sampled_from(['direct', 'direct', 'direct', 'splitting']))}
    names = domain.get_class(code).deformation_names
    if names and draw(st.booleans()):
        args['deformation'] = draw(st.sampled_from(names))
    if draw(st.booleans()):
        args['label'] = draw(st.sampled_from(['exp1', 'my_label']))
    return {'args': args}


def run(ctx):
    quick = ctx.tier == 'quick'
    ctx.run_hypothesis('cli_cases', 400 if quick else 24000)
    shutil.rmtree(runner.scratch_dir('c19'), ignore_errors=True)
