"""C07 - the Pauli noise model is the stated i.i.d. channel, sampled
faithfully, and the priors handed to decoders are its flip marginals."""
import numpy as np
from hypothesis import strategies as st

from vf import domain, gf2

PROPERTY = 'C07'
LEVEL = 'exploration'
RULE = ('Hypothesis draws (direction on the simplex incl. faces/vertices, '
        'error rate in [0,1] incl. 0 and 1, code, noise deformation name/'
        'axis). Per case: probability table vs own formula; the sampler is '
        'driven with a prescribed stratified sequence of uniform variates '
        '(M points (j+1/2)/M) so that the fraction mapped to each Pauli on '
        'each qubit must equal its probability within 1/M - exact, no '
        'statistics; one-variate perturbation changes one qubit only; '
        'get_weights vs log((1-q)/q); matching edge weights and BP-OSD '
        'channel probabilities read back from the decoder objects; Bayes '
        'update. Separate seeded chi-square cases with a real generator. '
        'Non-trivial = interior p, three distinct non-zero direction '
        'components, deformed model with at least one deformed and one '
        'undeformed qubit; distinct = distinct case dict')
ASSUMPTIONS = [
    'the sampler draws exactly one uniform variate per qubit via '
    'rng.random(); if that protocol changes the deterministic sampler check '
    'is skipped (counted under sampler_protocol_changed) and the seeded '
    'chi-square check remains',
    'chi-square alarm threshold is the 1e-12 upper quantile (deterministic '
    'for a given VERIF_SEED)',
    'weights are compared with relative tolerance 1e-9 for flip marginals in '
    '[1e-9, 1-1e-9]; only sign at the regularised ends',
]
MANIFEST_ENTRY = {
    'technique': 'Hypothesis over (direction, rate, code, deformation) with a '
                 'stub generator replaying a stratified variate sequence '
                 '(exact preimage-measure oracle), read-back of decoder '
                 'priors, and a seeded chi-square differential',
    'level_text': 'Tables, the sampler preimage measure for every Pauli on '
                  'every qubit (to 1/M), independence, matching weights, '
                  'BP channel probabilities and the conditional update are '
                  'compared with closed-form references on generated '
                  'parameters covering simplex faces, vertices and p in '
                  '{0,1}.',
    'level_note': 'The uniform variate is sampled on a grid of M points; '
                  'probabilities are checked to 1/M, not exactly.',
}

SMALL_CODES = [
    ('Toric2DCode', (2, 2)), ('Toric2DCode', (2, 3)), ('Planar2DCode', (2, 3)),
    ('Planar2DCode', (3, 3)), ('RotatedPlanar2DCode', (3, 3)),
    ('RotatedPlanar2DCode', (3, 4)), ('Toric3DCode', (2, 2, 2)),
    ('Planar3DCode', (2, 2, 2)), ('RotatedPlanar3DCode', (2, 2, 2)),
    ('RotatedToric3DCode', (2, 3, 2)), ('XCubeCode', (2, 2, 2)),
    ('RhombicPlanarCode', (2, 2, 2)), ('RhombicToricCode', (2, 2, 2)),
    ('Color666PlanarCode', (1, 1)), ('Color666ToricCode', (1, 1)),
    ('Color488Code', (1, 1)), ('HollowRhombicCode', (2, 2, 3)),
    ('HollowPlanar3DCode', (2, 2, 2)), ('Color3DCode', (2, 2, 2)),
]
MATCHING_CODES = ('Toric2DCode', 'Planar2DCode', 'RotatedPlanar2DCode')


class StubRNG(np.random.Generator):
    """Generator whose random() replays a prescribed sequence."""

    def __init__(self, seq):
        super().__init__(np.random.PCG64(12345))
        self._seq = list(seq)
        self._pos = 0
        self.calls = 0
        self.vector_calls = 0

    def random(self, size=None, *a, **k):
        if size is not None:
            self.vector_calls += 1
            return super().random(size, *a, **k)
        self.calls += 1
        v = self._seq[self._pos % len(self._seq)]
        self._pos += 1
        return v


def expected_table(code, r, p, name, kwargs):
    n = code.n
    t = {s: np.zeros(n) for s in 'IXYZ'}
    rr = dict(zip('XYZ', r))
    for i, loc in enumerate(code.qubit_coordinates):
        D = {'X': 'X', 'Y': 'Y', 'Z': 'Z'}
        if name is not None:
            D = code.get_deformation(loc, name, **kwargs)
        t['I'][i] = 1 - p
        for s in 'XYZ':
            t[s][i] = p * rr[D[s]]
    return t


def bsf_to_letters(e, n):
    e = np.asarray(e)
    return [('I', 'X', 'Z', 'Y')[int(e[i]) + 2 * int(e[n + i])] for i in range(n)]


def eval_table_case(case, fail):
    from panqec.error_models import PauliErrorModel
    cls, size = case['cls'], tuple(case['size'])
    r, p = case['direction'], case['error_rate']
    name, kwargs = case.get('deformation'), case.get('kwargs', {})
    code = domain.build_code(cls, size)
    n = code.n
    em = PauliErrorModel(*r, deformation_name=name, deformation_kwargs=dict(kwargs))
    want = expected_table(code, r, p, name, kwargs)
    got = dict(zip('IXYZ', em.probability_distribution(code, p)))
    for s in 'IXYZ':
        g = np.asarray(got[s], dtype=float)
        if g.shape != (n,):
            fail('table_shape', f'P({s}) has shape {g.shape}')
            return False
        if np.any(g < -1e-15):
            fail('table_nonnegative', f'P({s}) has negative entries')
        if not np.max(np.abs(g - want[s])) <= 1e-12:
            i = int(np.argmax(np.abs(g - want[s])))
            fail('table_value', f'P({s}) on qubit {i}: {g[i]} != {want[s][i]}')
    tot = sum(np.asarray(got[s], dtype=float) for s in 'IXYZ')
    if not np.max(np.abs(tot - 1)) <= 1e-12:
        fail('table_normalised', f'rows sum to {tot.min()}..{tot.max()}')
    if em.direction != tuple(r) and list(em.direction) != list(r):
        fail('direction_attr', f'{em.direction} != {r}')

    # several models queried on the SAME code object and rate (as a parameter
    # sweep does): each must get its own table, whatever was queried before
    siblings = []
    if name == 'XZZX':
        for ax in domain.AXES.get(cls, []):
            siblings.append((r, name, {'deformation_axis': ax}))
        siblings.append((r, name, {}))
    eps = 3e-6
    j = int(np.argmax(r))
    r2 = list(r)
    r2[j] -= eps
    r2[(j + 1) % 3] += eps
    siblings.append((r2, name, dict(kwargs)))
    siblings.append((r, None, {}))
    for r_s, n_s, k_s in siblings:
        em_s = PauliErrorModel(*r_s, deformation_name=n_s, deformation_kwargs=dict(k_s))
        want_s = expected_table(code, r_s, p, n_s, k_s)
        got_s = dict(zip('IXYZ', em_s.probability_distribution(code, p)))
        if any(not np.max(np.abs(np.asarray(got_s[c], float) - want_s[c])) <= 1e-12 for c in 'IXYZ'):
            fail('table_value_second_model_same_code',
                 f'model r={r_s} {n_s} {k_s} queried after r={r} {name} {kwargs} on the same '
                 f'code object and rate gets a wrong table')
            break
        ws = em_s.get_weights(code, p)
        qs = want_s['X'] + want_s['Y']
        mid = (qs > 1e-9) & (qs < 1 - 1e-9)
        if mid.any() and not np.max(np.abs(np.asarray(ws[0], float)[mid] - np.log((1 - qs[mid]) / qs[mid]))) <= 1e-9:
            fail('weights_second_model_same_code', f'model r={r_s} {n_s} {k_s}')
            break
    again = dict(zip('IXYZ', em.probability_distribution(code, p)))
    if any(not np.max(np.abs(np.asarray(again[c], float) - want[c])) <= 1e-12 for c in 'IXYZ'):
        fail('table_stable_after_other_models', 'table of the first model changed after others were queried')

    # --- sampler, deterministic preimage measure --------------------------
    M = case['M']
    counts = {s: np.zeros(n, dtype=int) for s in 'IXYZ'}
    protocol_ok = True
    for j in range(M):
        u = (j + 0.5) / M
        rng = StubRNG([u])
        e = em.generate(code, p, rng=rng)
        e = np.asarray(e)
        if e.shape != (2 * n,) or not set(np.unique(e).tolist()) <= {0, 1}:
            fail('sample_format', f'generate returned shape {e.shape} values {np.unique(e)[:5]}')
            return False
        if rng.calls != n or rng.vector_calls:
            protocol_ok = False
            break
        for i, s in enumerate(bsf_to_letters(e, n)):
            counts[s][i] += 1
    if protocol_ok:
        for s in 'IXYZ':
            dev = np.abs(counts[s] / M - want[s])
            if np.max(dev) > (1 + 1e-9) / M:
                i = int(np.argmax(dev))
                fail('sample_measure', f'qubit {i}: fraction of variates mapped to {s} is '
                     f'{counts[s][i] / M:.6f}, probability {want[s][i]:.6f} (grid 1/{M})')
                break
        # independence: changing variate i changes only qubit i
        rs = np.random.default_rng(case['rseed'])
        base = rs.random(n).tolist()
        e0 = np.asarray(em.generate(code, p, rng=StubRNG(base)))
        for i in rs.choice(n, size=min(n, 6), replace=False):
            alt = list(base)
            alt[int(i)] = float(rs.random())
            e1 = np.asarray(em.generate(code, p, rng=StubRNG(alt)))
            diff = set(np.nonzero(e0 != e1)[0] % n)
            if not diff <= {int(i)}:
                fail('sample_independent', f'changing variate {int(i)} changed qubits {sorted(diff)}')
                break
    # the smallest variate a generator can return: the outcome must be one
    # of non-zero probability whatever the rate (p = 1 gives no identity,
    # p = 0 nothing but the identity), also through the end-point rates
    for rate_ in (p, 1.0, 0.0, 1, 0):
        w_ = expected_table(code, r, float(rate_), name, kwargs)
        e = np.asarray(em.generate(code, rate_, rng=StubRNG([0.0])))
        for i, s in enumerate(bsf_to_letters(e, n)):
            if w_[s][i] <= 0:
                fail('sample_support', f'variate 0.0 at rate {rate_!r}: qubit {i} gets {s}, '
                     f'whose probability is {w_[s][i]}')
                break
    # endpoints with a real generator
    g = np.random.default_rng(case['rseed'])
    e = np.asarray(em.generate(code, 0.0, rng=g))
    if e.any():
        fail('sample_p0', 'p=0 produced a non-trivial error')
    e = np.asarray(em.generate(code, 1.0, rng=g))
    if int(((e[:n] + e[n:]) > 0).sum()) != n:
        fail('sample_p1', f'p=1 produced weight {int(((e[:n] + e[n:]) > 0).sum())} != n={n}')

    # --- priors -----------------------------------------------------------
    qx = want['X'] + want['Y']
    qz = want['Z'] + want['Y']
    wx, wz = em.get_weights(code, p)
    for nm, w, q in (('x', np.asarray(wx, float), qx), ('z', np.asarray(wz, float), qz)):
        if w.shape != (n,):
            fail('weights_shape', f'weights_{nm} shape {w.shape}')
            continue
        mid = (q >= 1e-9) & (q <= 1 - 1e-9)
        ref = np.log((1 - q[mid]) / q[mid])
        if mid.any() and not np.max(np.abs(w[mid] - ref) / np.maximum(1, np.abs(ref))) <= 1e-9:
            i = int(np.argmax(np.abs(w[mid] - ref)))
            fail('weights_llr', f'weights_{nm}: {w[mid][i]} != log((1-q)/q) = {ref[i]} '
                 f'for q={q[mid][i]}')
        if np.any(w[q < 1e-9] <= 0) or np.any(w[q > 1 - 1e-9] >= 0):
            fail('weights_sign_at_ends', f'weights_{nm}')
    interior = 0 < p < 1
    if cls in MATCHING_CODES and interior and np.all(qx > 1e-6) and np.all(qz > 1e-6) \
            and np.all(qx < 0.5 - 1e-6) and np.all(qz < 0.5 - 1e-6):
        from panqec.decoders import MatchingDecoder
        dec = MatchingDecoder(code, em, p)
        # the one-sector decoders get the same prior for the sector they decode
        dec_x = MatchingDecoder(code, em, p, error_type='X')
        dec_z = MatchingDecoder(code, em, p, error_type='Z')
        Hz = gf2.to_dense(code.Hz)
        Hx = gf2.to_dense(code.Hx)
        for nm, matcher, Hs, ref in (('x', dec.matcher_x, Hz, np.log((1 - qx) / qx)),
                                     ('z', dec.matcher_z, Hx, np.log((1 - qz) / qz)),
                                     ('x (error_type=X)', dec_x.matcher_x, Hz, np.log((1 - qx) / qx)),
                                     ('z (error_type=Z)', dec_z.matcher_z, Hx, np.log((1 - qz) / qz))):
            reported = {}
            for u_, v_, attr in matcher.edges():
                for f in attr['fault_ids']:
                    reported[int(f)] = float(attr['weight'])
            for f, w in reported.items():
                if not abs(w - ref[f]) <= 1e-9 * max(1, abs(ref[f])):
                    fail('matching_edge_weight',
                         f'matcher_{nm} edge of qubit {f} has weight {w}, flip-marginal LLR is {ref[f]}')
                    break
            cols = {}
            for f in range(n):
                cols.setdefault(tuple(Hs[:, f].tolist()), []).append(f)
            for f in range(n):
                if f in reported:
                    continue
                twins = [g_ for g_ in cols[tuple(Hs[:, f].tolist())] if g_ in reported]
                if not twins or min(ref[g_] for g_ in twins) > ref[f] + 1e-9:
                    fail('matching_edge_missing',
                         f'matcher_{nm}: qubit {f} has no edge and no lighter parallel edge')
                    break
    if cls == 'XCubeCode' and interior and np.all(qx > 1e-6) and np.all(qx < 0.5 - 1e-6) \
            and (name is None or (name == 'XZZX' and (kwargs or {}).get('deformation_axis', 'z') == 'z')):
        # the X-cube decoder matches inside one 2-D toric lattice per plane;
        # an edge of the plane orthogonal to `a` running along the 3-D axis
        # `u` stands for the qubits on u-edges: its weight is their X-flip LLR
        # (the decoder documents support for the default deformation axis)
        from panqec.decoders import XCubeMatchingDecoder
        xdec = XCubeMatchingDecoder(code, em, p)
        per_axis = {}
        for u in 'xyz':
            vals = np.array([np.log((1 - qx[i]) / qx[i]) for i, loc in enumerate(code.qubit_coordinates)
                             if code.qubit_axis(tuple(loc)) == u])
            per_axis[u] = float(vals[0]) if len(vals) and np.ptp(vals) < 1e-12 else None
        for a, (b, c_) in (('x', ('y', 'z')), ('y', ('x', 'z')), ('z', ('x', 'y'))):
            T = xdec.toric_code[a]
            m2 = xdec.matching_decoder[a]
            for nm in ('matcher_x', 'matcher_z'):
                matcher = getattr(m2, nm, None)
                if matcher is None:
                    continue
                bad = None
                for u_, v_, attr in matcher.edges():
                    for f in attr['fault_ids']:
                        axis3 = b if T.qubit_axis(tuple(T.qubit_coordinates[int(f)])) == 'x' else c_
                        ref_w = per_axis[axis3]
                        if ref_w is not None and abs(float(attr['weight']) - ref_w) > 1e-9 * max(1, abs(ref_w)):
                            bad = (int(f), axis3, float(attr['weight']), ref_w)
                if bad:
                    fail('xcube_plane_edge_weight',
                         f'plane orthogonal to {a}, {nm}: 2-D edge {bad[0]} stands for qubits on '
                         f'{bad[1]}-edges and has weight {bad[2]}, their X-flip LLR is {bad[3]}')
                    break
    if interior and case.get('bposd', True):
        from panqec.decoders import BeliefPropagationOSDDecoder
        rs = np.random.default_rng(case['rseed'] + 5)
        for defd in (None,) + ((name,) if name in domain.get_class(cls).deformation_names else ()):
            c2 = domain.build_code(cls, size, defd, kwargs if defd else {})
            w2 = expected_table(c2, r, p, name, kwargs)
            qx2, qz2 = w2['X'] + w2['Y'], w2['Z'] + w2['Y']
            bp = BeliefPropagationOSDDecoder(c2, em, p, max_bp_iter=5, osd_order=0)
            err = (rs.random(2 * n) < 0.05).astype(np.uint8)
            bp.decode(c2.measure_syndrome(err))
            if c2.is_css:
                gx = np.asarray(bp.x_decoder.channel_probs, float)
                gz = np.asarray(bp.z_decoder.channel_probs, float)
                if not np.max(np.abs(gx - qx2)) <= 1e-12:
                    fail('bp_channel_probs_x', f'x_decoder.channel_probs != p_X+p_Y '
                         f'({gx[:4]} vs {qx2[:4]})')
                if not np.max(np.abs(gz - qz2)) <= 1e-12:
                    fail('bp_channel_probs_z', f'z_decoder.channel_probs != p_Z+p_Y')
                # the X-error decoder must sit on the Z-check matrix
            else:
                gg = np.asarray(bp.decoder.channel_probs, float)
                if not np.max(np.abs(gg - np.concatenate([qz2, qx2]))) <= 1e-12:
                    fail('bp_channel_probs_noncss', 'decoder.channel_probs != [q_Z | q_X]')
            # Bayes update
            corr = (rs.random(n) < 0.5).astype(int)
            px_, py_, pz_ = w2['X'], w2['Y'], w2['Z']
            for direction, pa, pb in (('z->x', px_, pz_), ('x->z', pz_, px_)):
                got_u = np.asarray(bp.update_probabilities(corr, px_, py_, pz_, direction=direction), float)
                for i in range(n):
                    if corr[i] == 1:
                        den = pb[i] + py_[i]
                        if den <= 0:
                            continue
                        ref_u = py_[i] / den
                    else:
                        den = 1 - pb[i] - py_[i]
                        if den <= 0:
                            continue
                        ref_u = pa[i] / den
                    if not abs(got_u[i] - ref_u) <= 1e-12:
                        fail('bp_bayes_update', f'{direction} qubit {i} c={corr[i]}: '
                             f'{got_u[i]} != {ref_u}')
                        break
    # the conditional update as the decoder really applies it: decode with
    # channel_update on, then read the prior the X decoder was handed
    if interior and code.is_css:
        from panqec.decoders import BeliefPropagationOSDDecoder
        rs2 = np.random.default_rng(case['rseed'] + 9)
        bpu = BeliefPropagationOSDDecoder(code, em, p, max_bp_iter=5, osd_order=0, channel_update=True)
        err = (rs2.random(2 * n) < 0.15).astype(np.uint8)
        full = np.asarray(bpu.decode(code.measure_syndrome(err)))
        zc = full[n:]
        got_x = np.asarray(bpu.x_decoder.channel_probs, float)
        for i in range(n):
            if zc[i] == 1:
                den = want['Z'][i] + want['Y'][i]
                ref_u = want['Y'][i] / den if den > 0 else None
            else:
                den = 1 - want['Z'][i] - want['Y'][i]
                ref_u = want['X'][i] / den if den > 0 else None
            if ref_u is not None and abs(got_x[i] - ref_u) > 1e-9:
                fail('bp_bayes_update', f'decode with channel_update: X decoder prior of qubit {i} '
                     f'(Z correction {int(zc[i])}) is {got_x[i]}, P(X flip | Z outcome) = {ref_u}')
                break
    n_def = 0
    if name is not None:
        n_def = sum(1 for loc in code.qubit_coordinates
                    if code.get_deformation(loc, name, **kwargs) != {'X': 'X', 'Y': 'Y', 'Z': 'Z'})
    nt = (interior and len(set(r)) == 3 and min(r) > 0 and 0 < n_def < n)
    return nt, protocol_ok, n


def eval_chi2_case(case, fail):
    from panqec.error_models import PauliErrorModel
    from scipy.stats import chi2
    cls, size = case['cls'], tuple(case['size'])
    r, p = case['direction'], case['error_rate']
    name, kwargs = case.get('deformation'), case.get('kwargs', {})
    code = domain.build_code(cls, size)
    n = code.n
    em = PauliErrorModel(*r, deformation_name=name, deformation_kwargs=dict(kwargs))
    want = expected_table(code, r, p, name, kwargs)
    N = case['N']
    rng = np.random.default_rng(case['rseed'])
    counts = {s: np.zeros(n) for s in 'IXYZ'}
    pair = np.zeros((4, 4))
    idx = {'I': 0, 'X': 1, 'Y': 2, 'Z': 3}
    for _ in range(N):
        L = bsf_to_letters(em.generate(code, p, rng=rng), n)
        for i, s in enumerate(L):
            counts[s][i] += 1
        pair[idx[L[0]], idx[L[-1]]] += 1
    worst = 0.0
    for i in range(n):
        stat, df = 0.0, -1
        for s in 'IXYZ':
            ex = N * want[s][i]
            if ex < 1e-12:
                if counts[s][i] > 0:
                    fail('sample_support', f'qubit {i}: Pauli {s} has probability 0 but was drawn')
                continue
            stat += (counts[s][i] - ex) ** 2 / ex
            df += 1
        if df >= 1:
            thr = chi2.isf(1e-12, df)
            worst = max(worst, stat / thr)
            if stat > thr:
                fail('sample_distribution', f'qubit {i}: chi2={stat:.1f} > {thr:.1f} (df={df}); '
                     f'counts {[int(counts[s][i]) for s in "IXYZ"]} expected '
                     f'{[round(N * want[s][i], 1) for s in "IXYZ"]}')
                break
    # independence of first and last qubit (contingency chi-square)
    if n >= 2:
        ex = np.outer([want[s][0] for s in 'IXYZ'], [want[s][n - 1] for s in 'IXYZ']) * N
        mask = ex > 5
        if mask.sum() >= 2:
            stat = float((((pair - ex) ** 2)[mask] / ex[mask]).sum())
            thr = chi2.isf(1e-12, int(mask.sum()) - 1)
            if stat > thr:
                fail('sample_pair_independence', f'chi2={stat:.1f} > {thr:.1f}')
    return (0 < p < 1), worst


def eval_case(case):
    fails = []

    def fail(rel, detail):
        if len(fails) < 6:
            fails.append({'relation': rel, 'detail': detail})
    labels = [case['kind'], case['cls']]
    r = case['direction']
    nz = sum(1 for x in r if x > 0)
    labels.append({1: 'vertex', 2: 'face', 3: 'interior'}[nz])
    p = case['error_rate']
    labels.append('p=0' if p == 0 else 'p=1' if p == 1 else 'p-interior')
    labels.append('deformed-noise' if case.get('deformation') else 'plain-noise')
    evals = 1
    if case['kind'] == 'table':
        nt, proto, n = eval_table_case(case, fail)
        if not proto:
            labels.append('sampler_protocol_changed')
        evals = case['M'] * n
    else:
        nt, worst = eval_chi2_case(case, fail)
        evals = case['N']
    for f in fails:
        f['sig'] = {'bucket': f['relation'].split('_')[0]}
        f['detail'] = (f"{case['cls']}{tuple(case['size'])} r={r} p={p} "
                       f"{case.get('deformation')} {case.get('kwargs')}: ") + f['detail']
    return {'fails': fails, 'nontrivial': nt, 'labels': labels, 'evals': evals}


@st.composite
def table_cases(draw, M=256, kind='table', N=0):
    cls, size = draw(st.sampled_from(SMALL_CODES))
    r = draw(domain.directions())
    p = draw(st.one_of(
        st.sampled_from([0.0, 1.0, 0.5, 0.1, 0.3, 1 / 3, 0.07, 0.999, 1e-4]),
        st.floats(0.0, 1.0), st.floats(0.001, 0.3)))
    name, kw = draw(st.sampled_from(domain.deformations(cls)))
    direction = domain.as_given(draw, r)
    rate = domain.as_given(draw, [p])[0]
    if draw(st.integers(0, 9)) == 0:
        # values exactly as a hand-written input file has them: integer 0 / 1
        # next to fractions
        direction = list(draw(st.sampled_from([(0, 0.5, 0.5), (0.5, 0, 0.5), (0.5, 0.5, 0),
                                               (0, 0.25, 0.75), (1, 0, 0), (0, 0, 1)])))
        rate = draw(st.sampled_from([1, 0, 1, 0.5]))
    case = {'kind': kind, 'cls': cls, 'size': list(size), 'direction': direction,
            'error_rate': rate, 'deformation': name, 'kwargs': kw,
            'rseed': draw(st.integers(0, 2**30)), 'M': M}
    if kind == 'chi2':
        case['N'] = N
        case.pop('M')
    return case


@st.composite
def chi2_cases(draw, N=20000):
    small = [c for c in SMALL_CODES if domain.n_estimate(*c) <= 13]
    cls, size = draw(st.sampled_from(small))
    r = draw(domain.directions())
    p = draw(st.sampled_from([0.05, 0.1, 0.3, 0.5, 0.9]))
    name, kw = draw(st.sampled_from(domain.deformations(cls)))
    return {'kind': 'chi2', 'cls': cls, 'size': list(size), 'direction': [float(x) for x in r],
            'error_rate': float(p), 'deformation': name, 'kwargs': kw,
            'rseed': draw(st.integers(0, 2**30)), 'N': N}


def run(ctx):
    if ctx.tier == 'quick':
        ctx.run_hypothesis('table_cases', 480, M=128)
        ctx.run_hypothesis('chi2_cases', 32, N=20000)
    else:
        ctx.run_hypothesis('table_cases', 6000, M=1024)
        ctx.run_hypothesis('chi2_cases', 320, N=200000)
