"""C15 - analysis aggregates are conserved however results are split."""
import gzip
import json
import math
import os
import shutil
import zipfile

import numpy as np
from hypothesis import strategies as st

from vf import runner

PROPERTY = 'C15'
LEVEL = 'exploration'
RULE = ('Hypothesis draws 1..4 (code, noise, decoder, error rate) groups with '
        'k in {1,2,3}, a list of 1..60 planted trials each (effective-error '
        'bits, codespace flag, success = codespace and no effective error), '
        'a random partition of every group into 1..6 chunks and for every '
        'chunk a container: plain .json, .json.gz, member of a .zip (plain '
        'or gz), nested sub-directory, output of the real merge-results '
        'command applied once or twice (merge of merged files); '
        'file/path order generated. Oracle: pooled reference '
        'computed from the flat trial list (counts, p_est, standard errors, '
        'sector counts, word and single-qubit rates); metamorphic: a second '
        'partition/containers/order of the same multiset gives identical '
        'rows. Non-trivial = a group split over >= 2 chunks in >= 2 container '
        'kinds with both in- and out-of-codespace trials; distinct = '
        'distinct case dict')
ASSUMPTIONS = [
    'key order inside the inputs dicts is kept as panqec writes it (grouping '
    'is by str(dict))',
    'curve fitting is disabled on the instance (calculate_thresholds '
    'replaced by a no-op) so that only the counting code runs',
    'numerical tolerance 1e-12',
]
MANIFEST_ENTRY = {
    'technique': 'Hypothesis-generated trial multisets, partitions and '
                 'container layouts (plain/gzip/zip/nested/merged once or twice, '
                 'empty chunks, plain/gzip twins), groups differing only in '
                 'decoder options; reference '
                 'model = pooled statistics computed by the harness; '
                 'metamorphic re-partitioning',
    'level_text': 'For every generated layout the analysis rows are compared '
                  'with closed-form pooled statistics to 1e-12 and with the '
                  'rows of a second, different layout of the same trials.',
    'level_note': 'Only result-file layouts the tools themselves produce are '
                  'generated.',
}

CODES = {1: ('Planar2DCode', (3, 3)), 2: ('Toric2DCode', (3, 3)), 3: ('Toric3DCode', (2, 2, 2))}
_INPUT_CACHE = {}


def make_inputs(k, size_variant, direction, rate, decoder, dparams=None):
    """The inputs dict exactly as a DirectSimulation records it."""
    key = (k, size_variant, tuple(direction), rate, decoder, runner.canon(dparams or {}))
    if key not in _INPUT_CACHE:
        import panqec.codes as pc
        import panqec.decoders as pd
        from panqec.error_models import PauliErrorModel
        from panqec.simulation import DirectSimulation
        cls, size = CODES[k]
        size = tuple(s + size_variant for s in size)
        code = getattr(pc, cls)(*size)
        em = PauliErrorModel(*direction)
        dec = getattr(pd, decoder)(code, em, rate, **(dparams or {}))
        sim = DirectSimulation(code, em, dec, rate, verbose=False)
        _INPUT_CACHE[key] = json.loads(json.dumps(sim._inputs, default=runner._js))
    return json.loads(json.dumps(_INPUT_CACHE[key]))


def record(inputs, trials):
    eff = [t[0] for t in trials]
    cs = [bool(t[1]) for t in trials]
    suc = [bool(t[1]) and not any(t[0]) for t in trials]
    return {'inputs': json.loads(json.dumps(inputs)),
            'results': {'n_runs': len(trials), 'wall_time': 0.01 * len(trials),
                        'effective_error': eff, 'success': suc, 'codespace': cs}}


def write_layout(root, groups, layout):
    """layout: list of files; each file = {'kind', 'name', 'chunks': [(g, lo, hi)]}.
    Returns the list of paths to hand to Analysis."""
    from click.testing import CliRunner
    from panqec.cli import cli
    os.makedirs(root)
    tmp = os.path.join(root + '_tmp')
    os.makedirs(tmp)
    zips = {}
    twinned = set()
    for i, f in enumerate(layout['files']):
        recs = []
        for ch in f['chunks']:
            g, lo, hi = ch[:3]
            rec = record(groups[g]['inputs'], groups[g]['trials'][lo:hi])
            # the same point as different tools write it: a typed literal, or
            # the value a min:max:step range computes (a few ulps away)
            for _ in range(ch[3] if len(ch) > 3 else 0):
                rec['inputs']['error_rate'] = math.nextafter(rec['inputs']['error_rate'], 1.0)
            recs.append(rec)
        kind = f['kind']
        name = f'res_{i:02d}'
        if f.get('twin') is not None and kind == 'gz':
            # results_N.json and results_N.json.gz side by side (two runs of
            # one task, one of them compressed): same stem, different trials
            j = f['twin'] % len(layout['files'])
            if layout['files'][j]['kind'] == 'json' and j != i and j not in twinned:
                name = f'res_{j:02d}'
                twinned.add(j)          # one gzip twin per plain file
        # a file holding one record may be a bare dict (what
        # BaseSimulation.save_results writes) instead of a one-element list
        single = recs[0] if (len(recs) == 1 and f.get('bare')) else recs
        if kind in ('json', 'gz') and single is not recs:
            if kind == 'json':
                with open(os.path.join(root, name + '.json'), 'w') as fh:
                    json.dump(single, fh)
            else:
                with gzip.open(os.path.join(root, name + '.json.gz'), 'wb') as fh:
                    fh.write(json.dumps(single).encode())
        elif kind == 'json':
            with open(os.path.join(root, name + '.json'), 'w') as fh:
                json.dump(recs, fh)
        elif kind == 'gz':
            with gzip.open(os.path.join(root, name + '.json.gz'), 'wb') as fh:
                fh.write(json.dumps(recs).encode())
        elif kind == 'nested':
            d = os.path.join(root, 'sub', f'd{i}')
            os.makedirs(d, exist_ok=True)
            with gzip.open(os.path.join(d, name + '.json.gz'), 'wb') as fh:
                fh.write(json.dumps(recs).encode())
        elif kind in ('zip-json', 'zip-gz'):
            zips.setdefault(f.get('zip', 0), []).append((kind, name, recs))
        elif kind in ('merged', 'merged2'):
            # one file per record, merged by the real CLI command
            parts = []
            for j, r in enumerate(recs):
                p = os.path.join(tmp, f'{name}_{j}.json')
                with open(p, 'w') as fh:
                    # alternate bare single-run dicts and one-element lists
                    json.dump(r if (f.get('bare') and j % 2 == 0) else [r], fh)
                parts.append(p)
            out = os.path.join(root, name + '_merged.json.gz')
            if kind == 'merged2':
                # merge of merged files (per-node merges merged again): the
                # records sit three lists deep
                mids = []
                for a in range(0, len(parts), 2):
                    mid = os.path.join(tmp, f'{name}_mid{a}.json.gz')
                    res = CliRunner().invoke(cli, ['merge-results', '-o', mid] + parts[a:a + 2])
                    if res.exit_code != 0:
                        raise RuntimeError(f'merge-results failed: {res.output} {res.exception!r}')
                    mids.append(mid)
                parts = mids
            res = CliRunner().invoke(cli, ['merge-results', '-o', out] + parts)
            if res.exit_code != 0:
                raise RuntimeError(f'merge-results failed: {res.output} {res.exception!r}')
    for z, members in zips.items():
        with zipfile.ZipFile(os.path.join(root, f'arch_{z}.zip'), 'w') as zf:
            for kind, name, recs in members:
                if kind == 'zip-json':
                    zf.writestr(f'results/{name}.json', json.dumps(recs))
                else:
                    zf.writestr(f'results/{name}.json.gz', gzip.compress(json.dumps(recs).encode()))
    shutil.rmtree(tmp, ignore_errors=True)
    if layout.get('paths') == 'files':
        paths = []
        for dp, dn, fns in os.walk(root):
            for fn in sorted(fns):
                paths.append(os.path.join(dp, fn))
        order = layout.get('order', 0)
        rng = np.random.default_rng(order)
        rng.shuffle(paths)
        return paths
    return root


def pooled(group):
    T = group['trials']
    k = group['k']
    n = len(T)
    eff = np.array([t[0] for t in T], dtype=int).reshape(n, 2 * k)
    cs = np.array([bool(t[1]) for t in T])
    suc = cs & ~eff.any(axis=1)
    nf = int((~suc).sum())
    p = nf / n
    se = np.sqrt(p * (1 - p) / (n + 1))
    out = {'n_trials': n, 'n_fail': nf, 'p_est': p, 'p_se': se,
           'n_trials_X': k * int(cs.sum()), 'n_trials_Z': k * int(cs.sum()),
           'n_fail_X': int(eff[cs][:, :k].sum()), 'n_fail_Z': int(eff[cs][:, k:].sum()),
           'p_word_est': 1 - (1 - p) ** (1 / k),
           # undefined (0 ** negative * 0) when every trial failed and k > 1
           'p_word_se': ((1 / k) * (1 - p) ** (1 / k - 1) * se
                         if (p < 1 or k == 1) else None)}
    sq = np.zeros((k, 4))
    sqse = np.zeros((k, 4))
    for i in range(k):
        x, z = eff[:, i], eff[:, k + i]
        vals = [((x | z) > 0).mean(), ((x == 1) & (z == 0)).mean(),
                ((x == 1) & (z == 1)).mean(), ((x == 0) & (z == 1)).mean()]
        for j, q in enumerate(vals):
            sq[i, j] = q
            sqse[i, j] = np.sqrt(q * (1 - q) / (n + 1))
    out['single_qubit_p_est'] = sq
    out['single_qubit_p_se'] = sqse
    return out


def analyse(paths):
    from panqec.analysis import Analysis
    an = Analysis(paths, verbose=False)
    an.calculate_thresholds = lambda *a, **k: None      # counting code only
    an.calculate_sector_thresholds()
    return an.get_results()


def rows_by_group(df, groups):
    out = {}
    for gi, g in enumerate(groups):
        inp = g['inputs']
        hit = []
        for _, row in df.iterrows():
            if (row['code'] == inp['code']['name']
                    and json.dumps(row['code_params'], sort_keys=True) ==
                    json.dumps(inp['code']['parameters'], sort_keys=True)
                    and row['decoder'] == inp['decoder']['name']
                    and json.dumps(row['decoder_params'], sort_keys=True) ==
                    json.dumps(inp['decoder']['parameters'], sort_keys=True)
                    and abs(row['error_rate'] - inp['error_rate']) < 1e-9
                    and json.dumps(row['error_model_params'], sort_keys=True) ==
                    json.dumps(inp['error_model']['parameters'], sort_keys=True)):
                hit.append(row)
        out[gi] = hit
    return out


SCALARS = ['n_trials', 'n_fail', 'p_est', 'p_se', 'n_trials_X', 'n_trials_Z',
           'n_fail_X', 'n_fail_Z', 'p_word_est', 'p_word_se']


def eval_case(case):
    fails = []

    def fail(rel, detail):
        if len(fails) < 6:
            fails.append({'relation': rel, 'detail': detail})
    groups = []
    for g in case['groups']:
        inp = make_inputs(g['k'], g['size_variant'], g['direction'], g['error_rate'], g['decoder'],
                          g.get('dparams'))
        groups.append({'k': g['k'], 'inputs': inp, 'trials': g['trials']})
    base = os.path.join(runner.scratch_dir('c15'), f'p{os.getpid()}')
    shutil.rmtree(base, ignore_errors=True)
    os.makedirs(base)
    dfs = []
    for li, layout in enumerate(case['layouts']):
        paths = write_layout(os.path.join(base, f'layout{li}'), groups, layout)
        dfs.append(analyse(paths))
    df = dfs[0]
    if len(df) != len(groups):
        fail('one_row_per_group', f'{len(df)} rows for {len(groups)} groups')
    byg = rows_by_group(df, groups)
    for gi, g in enumerate(groups):
        rows = byg[gi]
        if len(rows) != 1:
            fail('one_row_per_group', f'group {gi} matched {len(rows)} rows')
            continue
        row = rows[0]
        ref = pooled(g)
        for key in SCALARS:
            got = float(row[key])
            if ref[key] is None:
                continue
            if not abs(got - ref[key]) <= 1e-12 * max(1, abs(ref[key])):
                fail(f'pooled_{key}', f'group {gi} (k={g["k"]}, {len(g["trials"])} trials): '
                     f'{key}={got!r}, pooled reference {ref[key]!r}')
        for key in ('single_qubit_p_est', 'single_qubit_p_se'):
            got = np.asarray(row[key], dtype=float)
            if got.shape != ref[key].shape or not np.max(np.abs(got - ref[key])) <= 1e-12:
                fail(f'pooled_{key}', f'group {gi}: {key}={got.tolist()} reference {ref[key].tolist()}')
    if len(dfs) > 1 and not fails:
        by2 = rows_by_group(dfs[1], groups)
        for gi in range(len(groups)):
            if len(by2[gi]) != 1:
                fail('partition_invariant', f'second layout: group {gi} matched {len(by2[gi])} rows')
                continue
            for key in SCALARS:
                a, b = float(byg[gi][0][key]), float(by2[gi][0][key])
                if np.isnan(a) and np.isnan(b):
                    continue
                if not abs(a - b) <= 1e-12 * max(1, abs(a)):
                    fail('partition_invariant', f'group {gi}: {key} differs between layouts: {a!r} vs {b!r}')
    shutil.rmtree(base, ignore_errors=True)
    # non-triviality
    nt = False
    lay = case['layouts'][0]
    for gi, g in enumerate(groups):
        kinds = {f['kind'] for f in lay['files'] for c in f['chunks'] if c[0] == gi}
        nchunks = sum(1 for f in lay['files'] for c in f['chunks'] if c[0] == gi)
        cs = [bool(t[1]) for t in g['trials']]
        if nchunks >= 2 and len(kinds) >= 2 and any(cs) and not all(cs):
            nt = True
    labels = ['groups=%d' % len(groups)] + sorted({f['kind'] for f in lay['files']})
    for f in fails:
        f['sig'] = {'bucket': f['relation']}
    return {'fails': fails, 'nontrivial': nt, 'labels': labels,
            'evals': sum(len(g['trials']) for g in groups)}


KINDS = ['json', 'gz', 'nested', 'zip-json', 'zip-gz', 'merged', 'merged2']


@st.composite
def layouts(draw, groups):
    files = []
    for gi, g in enumerate(groups):
        n = len(g['trials'])
        ncuts = draw(st.integers(0, min(5, n - 1)))
        cuts = sorted(draw(st.lists(st.integers(1, n - 1), min_size=ncuts, max_size=ncuts,
                                    unique=True))) if n > 1 else []
        bounds = [0] + cuts + [n]
        # a run stopped before its first trial leaves a record without trials
        # (BatchSimulation saves once before it starts): an empty chunk
        if draw(st.integers(0, 3)) == 0:
            at = draw(st.sampled_from(bounds))
            bounds = sorted(bounds + [at])
        for lo, hi in zip(bounds[:-1], bounds[1:]):
            # put the chunk into an existing file or a new one
            ulps = draw(st.sampled_from([0, 0, 0, 1, 2]))
            if files and draw(st.booleans()):
                f = draw(st.sampled_from(files))
                f['chunks'].append([gi, lo, hi, ulps])
            else:
                files.append({'kind': draw(st.sampled_from(KINDS)), 'zip': draw(st.integers(0, 1)),
                              'bare': draw(st.booleans()),
                              'twin': draw(st.one_of(st.none(), st.integers(0, 7))),
                              'chunks': [[gi, lo, hi, ulps]]})
    perm = draw(st.permutations(list(range(len(files)))))
    files = [files[i] for i in perm]
    return {'files': files, 'paths': draw(st.sampled_from(['dir', 'files'])),
            'order': draw(st.integers(0, 1000))}


@st.composite
def cases(draw, max_trials=60):
    ng = draw(st.integers(1, 4))
    groups = []
    used = set()
    for _ in range(ng):
        k = draw(st.sampled_from([1, 2, 3]))
        sv = draw(st.integers(0, 1))
        rate = draw(st.sampled_from([0.05, 0.1, 0.15, 0.2, 0.123456]))
        direction = draw(st.sampled_from([[1 / 3, 1 / 3, 1 / 3], [0, 0, 1], [0.1, 0.1, 0.8]]))
        # the decoder and its options are part of the point: two option sets
        # of one decoder class are two rows
        decoder, dparams = draw(st.sampled_from([
            ('BeliefPropagationOSDDecoder', {}),
            ('BeliefPropagationOSDDecoder', {'max_bp_iter': 10}),
            ('BeliefPropagationOSDDecoder', {'max_bp_iter': 10, 'osd_order': 0}),
            ('BeliefPropagationOSDDecoder', {'osd_order': 0}),
            ('MemoryBeliefPropagationDecoder', {'max_bp_iter': 3}),
            ('MemoryBeliefPropagationDecoder', {'max_bp_iter': 3, 'beta': 0.5})]))
        if groups and draw(st.booleans()):
            # same point as an earlier group, different decoder options
            g0 = draw(st.sampled_from(groups))
            k, sv, rate, direction = g0['k'], g0['size_variant'], g0['error_rate'], g0['direction']
        key = (k, sv, rate, tuple(direction), decoder, runner.canon(dparams))
        if key in used:
            continue
        used.add(key)
        n = draw(st.integers(1, max_trials))
        bit = st.integers(0, 1)
        trials = draw(st.lists(
            st.tuples(st.lists(bit, min_size=2 * k, max_size=2 * k),
                      st.sampled_from([True, True, True, False])),
            min_size=n, max_size=n))
        groups.append({'k': k, 'size_variant': sv, 'direction': direction, 'error_rate': rate,
                       'decoder': decoder, 'dparams': dparams,
                       'trials': [[t[0], t[1]] for t in trials]})
    lay = [draw(layouts(groups))]
    if draw(st.booleans()):
        lay.append(draw(layouts(groups)))
    return {'groups': groups, 'layouts': lay}


def run(ctx):
    quick = ctx.tier == 'quick'
    ctx.run_hypothesis('cases', 320 if quick else 20000, max_trials=40 if quick else 60)
    shutil.rmtree(runner.scratch_dir('c15'), ignore_errors=True)
