"""C14 - parallel runs execute exactly the requested trials per input.

Domain: (n_inputs, n_nodes N, n_cores C, trials) with N*C >= n_inputs and
trials >= (largest number of tasks any input receives); all job indices 1..N.
Oracle: the union over all jobs of the tasks that `run-parallel` would start
(recorded by replacing multiprocessing.Process inside panqec.cli's namespace -
no process is started; the property is about the arguments).
"""
import json
import os
import shutil
import types

from hypothesis import strategies as st

from vf import runner

PROPERTY = 'C14'
LEVEL = 'exploration'
RULE = ('exhaustive box over (n_inputs, nodes, cores, trials) with '
        'nodes*cores >= n_inputs and trials >= max tasks per input, every '
        'job index 1..nodes executed, plus Hypothesis-drawn large values, '
        'plus Hypothesis-drawn runs in which the stand-in for the child '
        'writes its result file, jobs run in a drawn order with/without '
        '--delete-existing over drawn leftover files and the result '
        'directory is read back; '
        'a case is non-trivial when trials is not divisible by the tasks of '
        'some input and n_tasks is not divisible by n_inputs; distinct = '
        'distinct 4-tuple')
ASSUMPTIONS = [
    'multiprocessing.Process/cpu_count are replaced inside panqec.cli by a '
    'recorder: the arguments handed to Process are taken as what would run',
    'run_file(input, result_file, n_runs) runs exactly n_runs trials per '
    'simulation of the input file (covered by C11/C12)',
]

MANIFEST_ENTRY = {
    'technique': 'exhaustive enumeration of the (inputs, nodes, cores, trials) '
                 'box + Hypothesis for large values and generated input file '
                 'names; conservation oracle over the recorded Process '
                 'arguments; Hypothesis runs in which a stand-in child writes '
                 'its result file, jobs run in a drawn order with / without '
                 '--delete-existing and the result directory is read back; '
                 'end-to-end runs of tiny real inputs through run_file',
    'level_text': 'Every configuration of a finite box (all job indices) is '
                  'executed against the real click callback and the union of '
                  'launched tasks is checked for conservation of trials, '
                  'distinct files and non-empty tasks; large values sampled. '
                  'The domain is a small integer lattice with divisibility-'
                  'dependent branches, so exhaustive small-box enumeration '
                  'reaches every remainder pattern.',
    'level_note': 'The arithmetic sweep trusts that the arguments passed to '
                  'multiprocessing.Process are what the child would run; a '
                  'Hypothesis family of small real data directories executes the '
                  'launched tasks with the library\'s own run_file and reads the '
                  'result files back. Values above the box are sampled.',
}

_DIRS = {}


# input file stems as users and `generate-input` produce them (one file per
# bias ratio: <label>_bias_0.5.json, <label>_bias_inf.json, ...)
NAME_POOL = ['exp_bias_0.5', 'exp_bias_0.25', 'exp_bias_10', 'exp_bias_inf', 'exp_bias_0.502',
             'exp', 'toric.v2', 'run 1', 'input_00', 'a.b.c', 'exp_bias_100.0', 'Z_bias-3']


# other things found in an inputs folder; only *.json files are inputs
EXTRA_POOL = ['README.txt', '.DS_Store', 'notes.md', '.ipynb_checkpoints/', 'exp.json.gz',
              'old.json.bak', '.gitkeep', 'plots/']


def _data_dir(n_inputs, names=None, extras=None):
    key = (os.getpid(), n_inputs, tuple(names or ()), tuple(extras or ()))
    if key not in _DIRS:
        d = os.path.join(runner.scratch_dir('c14'), f'p{os.getpid()}_i{n_inputs}_{len(_DIRS)}')
        shutil.rmtree(d, ignore_errors=True)
        os.makedirs(os.path.join(d, 'inputs'))
        stems = list(names) if names else [f'input_{i:02d}' for i in range(n_inputs)]
        assert len(stems) == n_inputs and len(set(stems)) == n_inputs
        for stem in stems:
            with open(os.path.join(d, 'inputs', stem + '.json'), 'w') as f:
                f.write('{}')
        for extra in extras or ():
            if extra.endswith('/'):
                os.makedirs(os.path.join(d, 'inputs', extra))
            else:
                with open(os.path.join(d, 'inputs', extra), 'w') as f:
                    f.write('x')
        _DIRS[key] = d
    return _DIRS[key]


def max_tasks_per_input(n_inputs, n_tasks):
    return n_tasks // n_inputs + n_tasks % n_inputs


def in_domain(n_inputs, N, C, trials):
    n_tasks = N * C
    return (n_tasks >= n_inputs and
            trials >= max_tasks_per_input(n_inputs, n_tasks))


REAL_SPEC = {'ranges': {
    'label': 'c14', 'code': {'name': 'RotatedPlanar2DCode', 'parameters': [{'L_x': 2, 'L_y': 2}]},
    'error_model': {'name': 'PauliErrorModel',
                    'parameters': [{'r_x': 1 / 3, 'r_y': 1 / 3, 'r_z': 1 / 3}]},
    'decoder': {'name': 'MatchingDecoder', 'parameters': {}}, 'error_rate': [0.1, 0.3]}}


def e2e_case(case):
    """End to end on tiny real inputs: the tasks are really executed (in
    line, in launch order) by the library's own run_file, and the result
    directory is read back with the library's own reader."""
    import panqec.cli as cli
    from panqec.utils import load_json
    n_inputs, N, C, trials = (case['n_inputs'], case['n_nodes'], case['n_cores'], case['trials'])
    assert in_domain(n_inputs, N, C, trials)
    d = os.path.join(runner.scratch_dir('c14'), f'e2e_p{os.getpid()}')
    shutil.rmtree(d, ignore_errors=True)
    os.makedirs(os.path.join(d, 'inputs'))
    for i in range(n_inputs):
        spec = json.loads(json.dumps(REAL_SPEC))
        spec['ranges']['error_rate'] = [0.05 + 0.1 * i, 0.3]
        if case.get('method') == 'splitting' and i % 2 == 0:
            spec['ranges']['method'] = {'name': 'splitting', 'parameters': {'n_init_runs': 2}}
        with open(os.path.join(d, 'inputs', f'in_{i}.json'), 'w') as f:
            json.dump(spec, f)
    tasks = []
    fails = []

    class Inline:
        def __init__(self, target=None, args=(), kwargs=None):
            self.target, self.args, self.kwargs = target, args, dict(kwargs or {})
            tasks.append(args)

        def start(self):
            try:
                with runner.quiet():
                    self.target(*self.args, **self.kwargs)
            except Exception as exc:      # noqa
                fails.append({'relation': 'task_raises',
                              'detail': f'task {self.args[1:]}: {type(exc).__name__}: {exc}'})

        def join(self):
            pass

    fake = types.SimpleNamespace(cpu_count=lambda: 10**9, Process=Inline)
    real = cli.multiprocessing
    cli.multiprocessing = fake
    try:
        for job in case.get('order') or range(1, N + 1):
            with runner.quiet():
                cli.run_parallel.callback(data_dir=d, trials=trials, n_nodes=N, job_idx=job,
                                          n_cores=C, delete_existing=False)
    finally:
        cli.multiprocessing = real
    per_input = {}
    for inp, res, n_runs in tasks:
        try:
            recs = load_json(res)
        except Exception as exc:      # noqa
            recs = None
            fails.append({'relation': 'result_file_of_its_own',
                          'detail': f'task with {n_runs} trial(s) of {os.path.basename(inp)}: result '
                                    f'file {os.path.basename(res)} cannot be read '
                                    f'({type(exc).__name__})'})
            continue
        runs = sorted({int(r['results']['n_runs']) for r in recs})
        # trials actually present: one entry per trial in every per-trial list
        # (direct: success flags; splitting: one chain per error rate)
        present = sorted({len(x) for r in recs for x in (
            r['results']['log_p_errors'] if 'log_p_errors' in r['results']
            else [r['results']['success']])})
        if runs != [n_runs] or present != [n_runs]:
            fails.append({'relation': 'task_ran_its_share',
                          'detail': f'{os.path.basename(res)}: {len(recs)} records with n_runs {runs} '
                                    f'holding {present} trials, the task was given {n_runs}'})
        per_input[inp] = per_input.get(inp, 0) + n_runs
    if not fails:
        for i in range(n_inputs):
            got = per_input.get(os.path.abspath(os.path.join(d, 'inputs', f'in_{i}.json')), 0)
            if got != trials:
                fails.append({'relation': 'trials_on_disk',
                              'detail': f'in_{i}.json: {got} trials in the result files, requested {trials}'})
    shutil.rmtree(d, ignore_errors=True)
    one = any(t[2] == 1 for t in tasks)
    return {'fails': fails[:6], 'nontrivial': one, 'labels': ['end-to-end', 'method:' + case.get('method', 'direct'),
            'has-one-trial-task' if one else 'all-tasks>=2-trials'], 'evals': len(tasks)}


def eval_case(case):
    if case.get('e2e'):
        return e2e_case(case)
    import panqec.cli as cli
    n_inputs, N, C, trials = (case['n_inputs'], case['n_nodes'],
                              case['n_cores'], case['trials'])
    assert in_domain(n_inputs, N, C, trials), 'case outside domain'
    d = _data_dir(n_inputs, case.get('names'), case.get('extras'))
    tasks = []

    # 'files' cases: the stand-in for the child process really writes its
    # result file when started, jobs run in a generated order (array tasks
    # are not ordered) with or without --delete-existing, possibly over
    # leftovers of an earlier run; the result directory is read back at the end
    files = bool(case.get('files'))
    order = case.get('order') or list(range(1, N + 1))
    assert sorted(order) == list(range(1, N + 1))
    res_dir = os.path.join(d, 'results')
    if files:
        shutil.rmtree(res_dir, ignore_errors=True)
        os.makedirs(res_dir)
        for name in case.get('leftovers', []):
            with open(os.path.join(res_dir, name), 'w') as f:
                f.write(json.dumps({'stale': True}))

    class Recorder:
        def __init__(self, target=None, args=(), kwargs=None):
            tasks.append((args, dict(kwargs or {})))
            self.args = args

        def start(self):
            if files:
                inp, res, n_runs = self.args
                with open(res, 'w') as f:
                    f.write(json.dumps({'input': inp, 'n_runs': n_runs}))

        def join(self):
            pass

    # with n_cores omitted the command uses every core of the machine
    omit = bool(case.get('omit_cores'))
    # the machine has plenty of cores, or exactly the C that are asked for
    # (what generate-cluster-script writes when -c is not given)
    exact = omit or bool(case.get('cpu_exact'))
    fake = types.SimpleNamespace(cpu_count=(lambda: C) if exact else (lambda: 10**9),
                                 Process=Recorder)
    real = cli.multiprocessing
    cli.multiprocessing = fake
    fails = []
    try:
        for job in order:
            cli.run_parallel.callback(
                data_dir=d, trials=trials, n_nodes=N, job_idx=job,
                n_cores=None if omit else C,
                delete_existing=bool(case.get('delete_existing', False)))
    finally:
        cli.multiprocessing = real

    n_tasks = N * C
    if len(tasks) != n_tasks:
        fails.append({'relation': 'task_count',
                      'detail': f'{len(tasks)} tasks started, expected {n_tasks}'})
    per_input = {}
    results, logs = set(), set()
    for args, kw in tasks:
        inp, res, n_runs = args
        per_input.setdefault(inp, []).append(n_runs)
        if res in results:
            fails.append({'relation': 'result_file_shared',
                          'detail': f'result file {os.path.basename(res)} used twice'})
        results.add(res)
        lf = kw.get('log_file')
        if lf in logs:
            fails.append({'relation': 'log_file_shared',
                          'detail': f'log file {lf} used twice'})
        logs.add(lf)
        if not (isinstance(n_runs, int) and n_runs >= 1):
            fails.append({'relation': 'task_without_trials',
                          'detail': f'task got n_runs={n_runs}'})
    expected_inputs = sorted(
        os.path.join(d, 'inputs', f) for f in os.listdir(os.path.join(d, 'inputs'))
        if f.endswith('.json') and os.path.isfile(os.path.join(d, 'inputs', f)))
    for inp in expected_inputs:
        runs = per_input.get(os.path.abspath(inp))
        if not runs:
            fails.append({'relation': 'input_without_task',
                          'detail': f'{os.path.basename(inp)} gets no task'})
        elif sum(runs) != trials:
            fails.append({'relation': 'trials_not_conserved',
                          'detail': f'{os.path.basename(inp)}: tasks run '
                          f'{runs} = {sum(runs)} trials, requested {trials}'})
    extra = set(per_input) - set(map(os.path.abspath, expected_inputs))
    if extra:
        fails.append({'relation': 'unknown_input', 'detail': str(sorted(extra))})
    if files:
        # what is on disk once every job has run
        on_disk = {}
        for args, kw in tasks:
            inp, res, n_runs = args
            try:
                with open(res) as f:
                    rec = json.load(f)
            except (OSError, ValueError):
                rec = None
            if rec != {'input': inp, 'n_runs': n_runs}:
                fails.append({'relation': 'result_file_survives',
                              'detail': f'after jobs ran in order {order} (delete_existing='
                              f'{bool(case.get("delete_existing"))}) the result file '
                              f'{os.path.basename(res)} of a launched task '
                              f'{"is missing" if rec is None else "holds " + str(rec)}'})
                continue
            on_disk[inp] = on_disk.get(inp, 0) + rec['n_runs']
        for inp in expected_inputs:
            got = on_disk.get(os.path.abspath(inp), 0)
            if got != trials and not any(f['relation'] == 'result_file_survives' for f in fails):
                fails.append({'relation': 'trials_on_disk',
                              'detail': f'{os.path.basename(inp)}: result files hold {got} '
                              f'trials, requested {trials}'})
        shutil.rmtree(res_dir, ignore_errors=True)

    base = n_tasks // n_inputs
    last = max_tasks_per_input(n_inputs, n_tasks)
    nontrivial = (n_tasks % n_inputs != 0 and
                  (trials % base != 0 or trials % last != 0))
    labels = []
    labels.append('remainder_tasks' if n_tasks % n_inputs else 'even_tasks')
    labels.append('remainder_trials' if (trials % base or trials % last)
                  else 'even_trials')
    if trials % last >= max(1, trials // last):
        labels.append('remainder>=quotient')
    if case.get('cpu_exact') and not omit:
        labels.append('n_cores == cpu_count')
    if case.get('extras'):
        labels.append('other-entries-in-inputs-folder')
    if case.get('names'):
        labels.append('dotted-input-names' if any('.' in x for x in case['names'])
                      else 'plain-input-names')
    if files:
        labels.append('files:delete-existing' if case.get('delete_existing') else 'files:keep')
        labels.append('files:ascending-jobs' if order == sorted(order) else 'files:other-job-order')
    return {'fails': fails[:6], 'nontrivial': nontrivial, 'labels': labels,
            'evals': N}


def box(max_inputs, max_nodes, max_cores, max_trials):
    for n_inputs in range(1, max_inputs + 1):
        for N in range(1, max_nodes + 1):
            for C in range(1, max_cores + 1):
                lo = max_tasks_per_input(n_inputs, N * C)
                if N * C < n_inputs:
                    continue
                for trials in range(lo, max_trials + 1):
                    yield {'n_inputs': n_inputs, 'n_nodes': N, 'n_cores': C,
                           'trials': trials}


@st.composite
def large_cases(draw):
    n_inputs = draw(st.integers(1, 12))
    C = draw(st.sampled_from([1, 2, 3, 4, 7, 8, 16, 24, 32, 48, 64, 128]))
    n_min = -(-n_inputs // C)
    N = draw(st.integers(n_min, max(n_min, 20)))
    lo = max_tasks_per_input(n_inputs, N * C)
    trials = draw(st.one_of(
        st.integers(lo, lo + 50),
        st.integers(lo, 10**6),
        st.sampled_from([100, 1000, 5000, 10000, 10**5, 10**6]).map(
            lambda t: max(t, lo)),
    ))
    case = {'n_inputs': n_inputs, 'n_nodes': N, 'n_cores': C, 'trials': trials,
            'omit_cores': draw(st.booleans()), 'cpu_exact': draw(st.booleans())}
    if draw(st.booleans()):
        case['names'] = draw(st.lists(st.sampled_from(NAME_POOL), min_size=n_inputs,
                                      max_size=n_inputs, unique=True))
    if draw(st.integers(0, 2)) == 0:
        case['extras'] = draw(st.lists(st.sampled_from(EXTRA_POOL), min_size=1, max_size=3,
                                       unique=True))
    return case


@st.composite
def file_cases(draw):
    n_inputs = draw(st.integers(1, 5))
    C = draw(st.integers(1, 4))
    n_min = -(-n_inputs // C)
    N = draw(st.integers(max(n_min, 1), max(n_min, 5)))
    lo = max_tasks_per_input(n_inputs, N * C)
    trials = draw(st.integers(lo, lo + 40))
    order = draw(st.permutations(list(range(1, N + 1))))
    digits = len(str(N * C))
    leftovers = draw(st.lists(st.sampled_from(
        [f'results_{str(i).zfill(dg)}.json{ext}' for i in range(1, N * C + 3)
         for dg in (digits, digits + 1) for ext in ('', '.gz')]), max_size=4, unique=True))
    case = {'n_inputs': n_inputs, 'n_nodes': N, 'n_cores': C, 'trials': trials,
            'files': True, 'order': list(order),
            'delete_existing': draw(st.booleans()), 'leftovers': leftovers,
            'omit_cores': draw(st.booleans())}
    if draw(st.booleans()):
        case['names'] = draw(st.lists(st.sampled_from(NAME_POOL), min_size=n_inputs,
                                      max_size=n_inputs, unique=True))
    if draw(st.integers(0, 2)) == 0:
        case['extras'] = draw(st.lists(st.sampled_from(EXTRA_POOL), min_size=1, max_size=3,
                                       unique=True))
    return case


@st.composite
def e2e_cases(draw):
    n_inputs = draw(st.integers(1, 3))
    C = draw(st.integers(1, 3))
    n_min = -(-n_inputs // C)
    N = draw(st.integers(n_min, max(n_min, 3)))
    lo = max_tasks_per_input(n_inputs, N * C)
    trials = draw(st.integers(lo, lo + 4))
    return {'e2e': True, 'n_inputs': n_inputs, 'n_nodes': N, 'n_cores': C, 'trials': trials,
            'method': draw(st.sampled_from(['direct', 'direct', 'splitting'])),
            'order': list(draw(st.permutations(list(range(1, N + 1)))))}


def run(ctx):
    if ctx.tier == 'quick':
        cases = list(box(6, 5, 8, 120))
        n_hyp = 800
    else:
        cases = list(box(10, 8, 24, 400))
        n_hyp = 40000
    ctx.note('box_cases', len(cases))
    ctx.exhaustive = True
    ctx.run_cases(cases, chunk=200)
    ctx.run_hypothesis('large_cases', n_hyp)
    ctx.run_hypothesis('file_cases', 600 if ctx.tier == 'quick' else 20000)
    ctx.run_hypothesis('e2e_cases', 96 if ctx.tier == 'quick' else 3000)
    shutil.rmtree(runner.scratch_dir('c14'), ignore_errors=True)
