"""C12 - interrupted batch runs resume without losing or duplicating trials."""
import copy
import gzip
import json
import os
import shutil

import numpy as np
from hypothesis import strategies as st

from vf import runner
from vf.faultfs import FaultFS, SimulatedKill

PROPERTY = 'C12'
LEVEL = 'fault_enumeration'
RULE = ('histories of run / stop / restart on one output file (.json and '
        '.json.gz). Enumerated part: for each base scenario (spec, targets, '
        'save frequency) a dry run numbers every OS-level file event of the '
        'crashing run (open-before, open-after = truncated, every raw write, '
        'replace-before/after) and the run is repeated with a simulated kill '
        'at EVERY event x byte-offset class {0, 1 byte, middle, all but one, '
        'all}; plus a KeyboardInterrupt before every trial of every '
        'simulation and inside every save. After the kill the same '
        'specification is run again to completion. Random part: Hypothesis '
        'histories with several stops of mixed kinds, growing specifications '
        'and rising targets. Oracle: reference model = last completed save '
        '(recorded by wrapping the save method) + targets. Non-trivial = a '
        'stop that lands after at least one completed save and before the '
        'target is reached (kill: offset strictly inside a write); distinct '
        '= distinct (scenario, crash point)')
ASSUMPTIONS = [
    'faults are injected at Python-level OS write boundaries with byte-offset '
    'truncation inside the harness process; kernel-level effects (lost page '
    'cache without fsync, non-durable rename) cannot be produced',
    'after a simulated kill every later file operation of the dead run is '
    'dropped, so with/finally cleanup cannot repair the file',
    'trial content is made deterministic by seeding each simulation\'s public '
    'rng attribute',
]
MANIFEST_ENTRY = {
    'technique': 'fault injection with exhaustive enumeration of crash points '
                 '(every file event x byte-offset class, every trial '
                 'boundary) + Hypothesis multi-restart histories (growing '
                 'specs, decoder option sets, direct and splitting method, '
                 'foreign records); reference model = last completed save and '
                 'the harness\'s own expansion of every spec run on the file',
    'level_text': 'Every enumerated crash point of every checkpoint write of '
                  'the base scenarios is executed against the real '
                  'BatchSimulation and followed by a restart; the result is '
                  'compared with a model of the last completed save (prefix '
                  'preservation, exact target counts, equal list lengths, '
                  'file = memory, no adoption of foreign records).',
    'level_note': 'In-process fault model at write-call granularity; real '
                  'kernel crash semantics are outside it.',
}

FRACS = [0.0, 0.001, 0.5, 0.999, 1.0]


def make_spec(sizes, directions, rates, code='RotatedPlanar2DCode', decoder='MatchingDecoder',
              dparams=None):
    return {'ranges': {
        'label': 'c12',
        'code': {'name': code, 'parameters': [{'L_x': a, 'L_y': b} for a, b in sizes]},
        'error_model': {'name': 'PauliErrorModel',
                        'parameters': [{'r_x': r[0], 'r_y': r[1], 'r_z': r[2]} for r in directions]},
        'decoder': {'name': decoder, 'parameters': {} if dparams is None else dparams},
        'error_rate': list(rates)}}


# decoder option sets; two entries of one list differ in exactly one option
DECODER_VARIANTS = {
    'MatchingDecoder': [{'error_type': None}, {'error_type': 'X'}, {'error_type': 'Z'}],
    'BeliefPropagationOSDDecoder': [
        {'max_bp_iter': 10, 'osd_order': 0, 'channel_update': False, 'bp_method': 'minimum_sum'},
        {'max_bp_iter': 10, 'osd_order': 3, 'channel_update': False, 'bp_method': 'minimum_sum'},
        {'max_bp_iter': 20, 'osd_order': 0, 'channel_update': False, 'bp_method': 'minimum_sum'},
        {'max_bp_iter': 10, 'osd_order': 0, 'channel_update': True, 'bp_method': 'minimum_sum'},
        {'max_bp_iter': 10, 'osd_order': 0, 'channel_update': False, 'bp_method': 'product_sum'}],
    'MemoryBeliefPropagationDecoder': [
        {'max_bp_iter': 3, 'alpha': 0.4, 'beta': 0},
        {'max_bp_iter': 3, 'alpha': 0.4, 'beta': 0.5},
        {'max_bp_iter': 3, 'alpha': 0.7, 'beta': 0},
        {'max_bp_iter': 2, 'alpha': 0.4, 'beta': 0}],
}


def spec_sims(spec):
    """Identities of the simulations a ranges spec requests (own expansion)."""
    import itertools
    out = []
    blocks = spec['ranges'] if isinstance(spec['ranges'], list) else [spec['ranges']]
    for b in blocks:
        dp = b['decoder'].get('parameters') or {}
        dps = dp if isinstance(dp, list) else [dp]
        splitting = (b.get('method') or {}).get('name') == 'splitting'
        rates = ['all'] if splitting else [repr(float(r)) for r in b['error_rate']]
        for c, e, d, r in itertools.product(b['code']['parameters'], b['error_model']['parameters'],
                                            dps, rates):
            out.append(runner.canon([b['code']['name'], c, e, b['decoder']['name'], d, r]))
    return out


def result_lists(res):
    """The per-trial lists of a simulation's results (direct: one entry per
    trial in three lists; splitting: one chain per error rate)."""
    if 'log_p_errors' in res:
        return {f'log_p_errors[{i}]': [float(v) for v in x] for i, x in enumerate(res['log_p_errors'])}
    return {'effective_error': [np.asarray(x).tolist() for x in res['effective_error']],
            'success': [bool(x) for x in res['success']],
            'codespace': [bool(x) for x in res['codespace']]}


def norm(obj):
    return json.loads(json.dumps(obj, default=runner._js))


def inputs_key(inp):
    return runner.canon(norm(inp))


class Scenario:
    """Executes runs of one history against one output file."""

    def __init__(self, root, fmt):
        self.root = root
        self.out = os.path.join(root, 'results.json' + ('.gz' if fmt == 'gz' else ''))
        self.model = {}          # inputs_key -> record of the last completed save
        self.completed_saves = 0
        self.targets = {}        # inputs_key -> highest requested target
        self.requested = set()   # identities of every simulation ever requested on this file
        self.foreign_keys = set()

    def build(self, spec, save_frequency, seed):
        from panqec.simulation import read_input_dict
        batch = read_input_dict(copy.deepcopy(spec), self.out, verbose=False,
                                save_frequency=save_frequency)
        for i, sim in enumerate(batch._simulations):
            sim.rng = np.random.default_rng(seed * 1000 + i)
        np.random.seed(seed % (2 ** 32))     # the splitting method draws from numpy's global state
        scen = self
        orig = batch._save_results

        def recording_save():
            orig()
            scen.completed_saves += 1
            for rec in norm(batch.get_results_to_save()):
                scen.model[inputs_key(rec['inputs'])] = rec
        batch._save_results = recording_save
        return batch

    def run(self, spec, target, save_frequency, seed, stop=None, count_only=False):
        """Returns (outcome, n_events, batch). outcome: 'ok' | 'killed' |
        ('raised', repr)."""
        batch = self.build(spec, save_frequency, seed)
        if not count_only:
            self.requested |= set(spec_sims(spec))
        for sim in batch._simulations:
            k = inputs_key(sim._inputs)
            self.targets[k] = max(self.targets.get(k, 0), target)
        fs = FaultFS(self.root)
        if stop and stop[0] == 'kill':
            fs.arm(stop[1], 'kill', stop[2])
        elif stop and stop[0] == 'ki_save':
            fs.arm(stop[1], 'interrupt', 0.5)
        elif stop and stop[0] == 'ki_trial':
            i_sim, j = stop[1] % len(batch._simulations), stop[2]
            sim = batch._simulations[i_sim]
            orig_run = sim.run
            calls = {'n': 0}

            def interrupted_run(n):
                if calls['n'] == j:
                    calls['n'] += 1
                    raise KeyboardInterrupt('injected before trial')
                calls['n'] += 1
                return orig_run(n)
            sim.run = interrupted_run
        elif stop and stop[0] == 'ki_decode':
            # Ctrl-C in the middle of a trial: inside the k-th decoder call
            # of the run (decoding is where a run spends its time)
            left = {'n': int(stop[1])}
            for sim in batch._simulations:
                for dec in ([sim.decoder] if hasattr(sim, 'decoder') else list(sim.decoders)):
                    def interrupted_decode(syndrome, _orig=dec.decode, **kw):
                        if left['n'] == 0:
                            left['n'] -= 1
                            raise KeyboardInterrupt('injected inside a decoder call')
                        left['n'] -= 1
                        return _orig(syndrome, **kw)
                    dec.decode = interrupted_decode
        tracer = None
        if stop and stop[0] == 'ki_anywhere':
            # Ctrl-C at an arbitrary point of the library's execution: at the
            # k-th function entry inside panqec during this run
            import sys
            left = {'n': int(stop[1])}

            def tracer(frame, event, arg):
                if event == 'call' and '/panqec/' in frame.f_code.co_filename:
                    if left['n'] == 0:
                        left['n'] -= 1
                        raise KeyboardInterrupt('injected at a function entry')
                    left['n'] -= 1
                return None
        outcome = 'ok'
        with runner.quiet():
            with fs:
                try:
                    if tracer is not None:
                        import sys
                        sys.settrace(tracer)
                    try:
                        batch.run(target)
                    finally:
                        if tracer is not None:
                            sys.settrace(None)
                except SimulatedKill:
                    outcome = 'killed'
                except KeyboardInterrupt:
                    # the interrupt reached the caller (it landed outside the
                    # part of run() that turns it into "paused"): a stop too
                    outcome = 'ok'
                except Exception as exc:    # noqa
                    import traceback
                    outcome = ('raised', f'{type(exc).__name__}: {exc}',
                               traceback.format_exc()[-1200:])
        return outcome, fs.events, batch


def check_final(scen, batch, target, fail, foreign_marks=(), model=None):
    """Oracle after a run that was allowed to complete."""
    file_data = None
    try:
        from panqec.utils import load_json
        file_data = norm(load_json(scen.out))
    except Exception as exc:    # noqa
        fail('file_parses_after_completion', f'{type(exc).__name__}: {exc}')
    if file_data is not None:
        own = [r for r in file_data if inputs_key(r['inputs']) not in scen.foreign_keys]
        if len(own) != len(scen.requested):
            fail('file_has_one_record_per_simulation',
                 f'{len(scen.requested)} distinct simulations were requested on this file, '
                 f'it holds {len(own)} records for them')
    for si, sim in enumerate(batch._simulations):
        res = sim.results
        key = inputs_key(sim._inputs)
        n = res['n_runs']
        mine_lists = norm(result_lists(res))
        lens = tuple(len(v) for v in mine_lists.values())
        if n != target:
            fail('exact_target', f'simulation {si}: n_runs={n}, requested {target}')
        if any(x != n for x in lens):
            fail('equal_list_lengths', f'simulation {si}: n_runs={n}, list lengths {lens}')
        m = (scen.model if model is None else model).get(key)
        if m is not None:
            saved = norm(result_lists(m['results']))
            k = m['results']['n_runs']
            if any(mine_lists.get(name, [])[:k] != vals[:k] for name, vals in saved.items()):
                fail('last_save_kept_as_prefix',
                     f'simulation {si}: the {k} trials of the last completed save are not '
                     f'the first {k} trials of the final result (final has {n})')
        if file_data is not None:
            mine = [r for r in file_data if inputs_key(r['inputs']) == key]
            if len(mine) != 1:
                fail('file_has_one_record_per_simulation', f'simulation {si}: {len(mine)} records')
            elif mine[0]['results']['n_runs'] != n or \
                    norm(result_lists(mine[0]['results'])) != mine_lists:
                fail('file_equals_memory', f'simulation {si}')
        if foreign_marks and not all(bool(x) for x in res['codespace']):
            fail('foreign_results_adopted', f'simulation {si} carries marked foreign results')


def stop_is_nontrivial(scen_saves_before, reached_target):
    return scen_saves_before >= 1 and not reached_target


def enum_case(case, fail):
    """Dry-run the scenario, then kill at every event x offset class of the
    crashing run, restart, check."""
    base = os.path.join(runner.scratch_dir('c12'), f'p{os.getpid()}')
    shutil.rmtree(base, ignore_errors=True)
    spec = case['spec']
    evals = 0
    nt_keys = []

    def fresh(tag):
        root = os.path.join(base, tag)
        shutil.rmtree(root, ignore_errors=True)
        os.makedirs(root)
        scen = Scenario(root, case['fmt'])
        seed = case['seed']
        for i, pr in enumerate(case.get('prefix_runs', [])):
            out, _, _ = scen.run(spec, pr['target'], pr['sf'], seed + i)
            if out != 'ok':
                raise RuntimeError(f'prefix run did not complete: {out}')
        return scen

    crash = case['crash_run']
    final = case.get('final_target', crash['target'])
    seed2 = case['seed'] + 50
    # dry run: number the events
    scen = fresh('dry')
    out, events, _ = scen.run(spec, crash['target'], crash['sf'], seed2)
    if out != 'ok':
        fail('run_completes', f'uninterrupted run: {out}')
        return 1, []
    n_sims = len(_) if False else None
    points = []
    only = case.get('only')
    for ei, ev in enumerate(events):
        if ev[0] == 'write':
            for fr in FRACS:
                points.append(('kill', ei, fr))
            points.append(('ki_save', ei, 0.5))
        else:
            points.append(('kill', ei, 0.0))
    # trial boundaries: KeyboardInterrupt before trial j of simulation i
    nsim = case['n_sims']
    for i in range(nsim):
        for j in range(crash['target'] + 1):
            points.append(('ki_trial', i, j))
    if only is not None:
        points = [tuple(only)]
    for pt in points:
        scen = fresh('run')
        saves_before = scen.completed_saves
        out, evs, b1 = scen.run(spec, crash['target'], crash['sf'], seed2, stop=list(pt))
        evals += 1
        if isinstance(out, tuple):
            fail('stopped_run_raises', f'crash point {pt}: {out[1]}')
            fails_extra(fail, pt)
            continue
        reached = all(s.results['n_runs'] >= crash['target'] for s in b1._simulations) \
            and out == 'ok' and pt[0] != 'kill'
        saves_in_run = scen.completed_saves
        # restart: same specification, same output file
        model_before = copy.deepcopy(scen.model)
        out2, _, b2 = scen.run(spec, final, crash['sf'], seed2 + 7)
        if out2 != 'ok':
            detail = out2[1] if isinstance(out2, tuple) else out2
            fail('restart_completes',
                 f'after crash point {pt} (event {events[pt[1]] if pt[0] != "ki_trial" and pt[1] < len(events) else pt}) '
                 f'the restarted run failed: {detail}')
            fails_extra(fail, pt)
            continue
        nf = fail.count
        check_final(scen, b2, final, lambda r, d, _pt=pt: fail(r, f'after crash point {_pt}: {d}'),
                    model=model_before)
        if fail.count > nf:
            fails_extra(fail, pt)
        inside = pt[0] != 'kill' or (0.0 < pt[2] < 1.0)
        if saves_in_run >= 1 and inside and len(nt_keys) < 3000:
            nt_keys.append(f"{case['name']}:{pt}")
        if fail.count >= 6:
            break
    shutil.rmtree(base, ignore_errors=True)
    return evals, nt_keys


def fails_extra(fail, pt):
    if fail.items:
        fail.items[-1].setdefault('sig', {})['stop_kind'] = pt[0]
        fail.items[-1]['only'] = list(pt)


def history_case(case, fail):
    base = os.path.join(runner.scratch_dir('c12'), f'h{os.getpid()}')
    shutil.rmtree(base, ignore_errors=True)
    os.makedirs(base)
    scen = Scenario(base, case['fmt'])
    foreign = []
    if case.get('foreign'):
        # pre-seed the file with records of *different* inputs, marked all-fail
        from panqec.utils import save_json
        fscen = Scenario(os.path.join(base, 'f'), case['fmt'])
        os.makedirs(fscen.root)
        batch = fscen.build(case['foreign']['spec'], 1, 999)
        mark_n = case['foreign']['n']
        recs = []
        for sim in batch._simulations:
            rec = norm(sim.get_results_to_save())
            scen.foreign_keys.add(inputs_key(rec['inputs']))
            k = rec['inputs']['code']['k']
            # marked: out of the code space, which the (complete) matching
            # decoder never produces in a genuine trial
            rec['results'].update({'n_runs': mark_n, 'effective_error': [[1] * (2 * k)] * mark_n,
                                   'success': [False] * mark_n, 'codespace': [False] * mark_n})
            recs.append(rec)
        save_json(recs, scen.out)
        foreign.append(True)
    evals = 0
    nt = False
    spec = copy.deepcopy(case['spec0'])
    last_batch, last_target = None, None
    for ri, run in enumerate(case['runs']):
        if run.get('grow'):
            g = run['grow']
            if g[0] == 'size':
                if {'L_x': g[1], 'L_y': g[2]} not in spec['ranges']['code']['parameters']:
                    spec['ranges']['code']['parameters'].append({'L_x': g[1], 'L_y': g[2]})
            elif g[0] == 'dparam':
                cur = spec['ranges']['decoder']['parameters']
                cur = cur if isinstance(cur, list) else [cur]
                if g[1] not in cur:
                    spec['ranges']['decoder']['parameters'] = cur + [g[1]]
            else:
                if g[1] not in spec['ranges']['error_rate']:
                    spec['ranges']['error_rate'].append(g[1])
        stop = run.get('stop')
        saves_before = scen.completed_saves
        if stop and stop[0] in ('kill', 'ki_save'):
            # translate the fractional position into an event index by a dry
            # run on a copy of the directory
            snap = base + '_snap'
            shutil.rmtree(snap, ignore_errors=True)
            shutil.copytree(base, snap)
            keep = (copy.deepcopy(scen.model), scen.completed_saves, dict(scen.targets))
            _, events, _ = scen.run(spec, run['target'], run['sf'], case['seed'] + ri)
            shutil.rmtree(base)
            shutil.copytree(snap, base)
            shutil.rmtree(snap)
            scen.model, scen.completed_saves, scen.targets = keep
            widx = [i for i, e in enumerate(events) if e[0] == 'write'] if stop[0] == 'ki_save' \
                else list(range(len(events)))
            if not widx:
                stop = None
            else:
                stop = [stop[0], widx[min(len(widx) - 1, int(stop[1] * len(widx)))], stop[2]]
        model_before = copy.deepcopy(scen.model)
        out, _, batch = scen.run(spec, run['target'], run['sf'], case['seed'] + ri, stop=stop)
        evals += 1
        if isinstance(out, tuple):
            fail('run_raises', f'run {ri} ({run}) raised {out[1]}')
            break
        if stop is not None and scen.completed_saves >= 1 and \
                any(s.results['n_runs'] < run['target'] for s in batch._simulations):
            nt = True
        if stop is not None and run.get('resume_same_object') and out == 'ok':
            try:
                with runner.quiet():
                    batch.run(run['target'])
            except Exception as exc:      # noqa
                fail('restart_completes', f'run {ri} ({run}) was paused and continued on the same '
                     f'BatchSimulation object: {type(exc).__name__}: {exc}')
                break
            stop = None
        if stop is None:
            check_final(scen, batch, run['target'],
                        lambda r, d, _ri=ri: fail(r, f'after run {_ri} of {case["runs"][:_ri + 1]}: {d}'),
                        foreign_marks=foreign, model=model_before)
            if fail.count:
                break
    shutil.rmtree(base, ignore_errors=True)
    return evals, nt


class _Fail:
    def __init__(self):
        self.items = []
        self.count = 0

    def __call__(self, rel, detail):
        self.count += 1
        if len(self.items) < 6:
            self.items.append({'relation': rel, 'detail': detail, 'sig': {}})


def eval_case(case):
    fail = _Fail()
    nt_keys = []
    nt = False
    if case['kind'] == 'enum':
        evals, nt_keys = enum_case(case, fail)
    else:
        evals, nt = history_case(case, fail)
    for f in fail.items:
        f['sig']['fmt'] = case['fmt']
        f['detail'] = f"[{case['fmt']}] " + f['detail']
    return {'fails': fail.items, 'nontrivial': nt, 'nontrivial_keys': nt_keys,
            'labels': [case['kind'], case['fmt']] + (
                ['decoder:' + case['spec0']['ranges']['decoder']['name'],
                 'method:' + (case['spec0']['ranges'].get('method') or {}).get('name', 'direct')]
                if case['kind'] == 'history' else []), 'evals': max(1, evals)}


def case_sig(case):
    return {'fmt': case.get('fmt')}


def enum_scenarios(quick, seed):
    out = []
    specs = [
        ('1sim', make_spec([(2, 2)], [(1 / 3, 1 / 3, 1 / 3)], [0.2]), 1),
        ('2x2sims', make_spec([(2, 2), (2, 3)], [(1 / 3, 1 / 3, 1 / 3)], [0.1, 0.3]), 4),
        ('ulp-rates', make_spec([(2, 2)], [(1 / 3, 1 / 3, 1 / 3)], [0.3, 0.1 + 0.2]), 2),
    ]
    if not quick:
        specs.append(('big', make_spec([(3, 3), (3, 4), (4, 4)], [(1 / 3, 1 / 3, 1 / 3), (0, 0, 1)],
                                       [0.05, 0.1, 0.2]), 18))
    for name, spec, nsims in specs:
        for fmt in ('json', 'gz'):
            for (prefix, crash, final) in (
                    ([], {'target': 4, 'sf': 1}, 4),
                    ([{'target': 3, 'sf': 1}], {'target': 6, 'sf': 2}, 6),
                    ([{'target': 2, 'sf': 3}], {'target': 5, 'sf': 1}, 7)):
                out.append({'kind': 'enum', 'name': f'{name}-{fmt}-{crash["target"]}',
                            'spec': spec, 'n_sims': nsims, 'fmt': fmt, 'prefix_runs': prefix,
                            'crash_run': crash, 'final_target': final, 'seed': seed})
    if not quick:
        # a checkpoint larger than the 8 KiB write buffer: several raw writes
        spec = make_spec([(2, 2)], [(1 / 3, 1 / 3, 1 / 3)], [0.2])
        for fmt in ('json', 'gz'):
            out.append({'kind': 'enum', 'name': f'long-{fmt}', 'spec': spec, 'n_sims': 1, 'fmt': fmt,
                        'prefix_runs': [{'target': 400, 'sf': 100}],
                        'crash_run': {'target': 403, 'sf': 1}, 'final_target': 404, 'seed': seed})
    return out


@st.composite
def histories(draw):
    sizes = draw(st.lists(st.sampled_from([(2, 2), (2, 3), (3, 2)]), min_size=1, max_size=2, unique=True))
    # 0.1 + 0.2 and 0.3 differ by one ulp: distinct error rates, as a range
    # helper and a typed literal produce them
    rates = draw(st.lists(st.sampled_from([0.1, 0.2, 0.3, 0.1 + 0.2]), min_size=1, max_size=3,
                          unique=True))
    # the decoder and its options are part of a simulation's identity: one
    # or two option sets that differ in exactly one option
    dec_name, variants, dparams = 'MatchingDecoder', None, None
    if draw(st.integers(0, 2)) == 0:
        dec_name = draw(st.sampled_from(sorted(DECODER_VARIANTS)))
        variants = DECODER_VARIANTS[dec_name]
        k = draw(st.integers(1, len(variants) - 1))
        dparams = draw(st.sampled_from([variants[0], [variants[0], variants[k]],
                                        [variants[k], variants[0]], variants[k]]))
        if dec_name != 'MatchingDecoder':
            sizes, rates = sizes[:1], rates[:2]
    spec0 = make_spec(sizes, [(1 / 3, 1 / 3, 1 / 3)], rates, decoder=dec_name, dparams=dparams)
    splitting = variants is None and draw(st.integers(0, 4)) == 0
    if splitting:
        # the other documented method: one Monte-Carlo chain per error rate
        spec0['ranges']['method'] = {'name': 'splitting',
                                     'parameters': {'n_init_runs': draw(st.integers(1, 5))}}
    runs = []
    target = 0
    for _ in range(draw(st.integers(1, 5))):
        target += draw(st.integers(0, 4))
        target = max(target, 1)
        stop = draw(st.sampled_from([None, 'kill', 'kill', 'ki_save', 'ki_trial', 'ki_decode',
                                     'ki_anywhere']))
        run = {'target': target, 'sf': draw(st.integers(1, 4))}
        if stop == 'kill':
            run['stop'] = ['kill', draw(st.floats(0, 0.999)), draw(st.sampled_from(FRACS))]
        elif stop == 'ki_save':
            run['stop'] = ['ki_save', draw(st.floats(0, 0.999)), 0.5]
        elif stop == 'ki_trial':
            run['stop'] = ['ki_trial', draw(st.integers(0, 3)), draw(st.integers(0, target))]
        elif stop == 'ki_decode':
            run['stop'] = ['ki_decode', draw(st.integers(0, 12)), 0]
        elif stop == 'ki_anywhere':
            run['stop'] = ['ki_anywhere', draw(st.one_of(st.integers(0, 400), st.integers(0, 6000))), 0]
        if stop in ('ki_trial', 'ki_decode', 'ki_anywhere', 'ki_save') and draw(st.booleans()):
            # the paused run is continued the way the tutorial does it: run()
            # again on the same BatchSimulation object
            run['resume_same_object'] = True
        if draw(st.integers(0, 5)) == 0:
            grows = [['size', 3, 3], ['size', 2, 4], ['rate', 0.15], ['rate', 0.25],
                     ['rate', 0.1 + 0.2], ['rate', 0.3]]
            if variants is not None:
                grows = grows[:2] + [['dparam', v] for v in variants[1:]] * 2
            if splitting:
                grows = grows[:2]       # (the rates of a chain family are fixed)
            run['grow'] = draw(st.sampled_from(grows))
        runs.append(run)
    runs.append({'target': target + draw(st.integers(0, 2)), 'sf': draw(st.integers(1, 3))})
    case = {'kind': 'history', 'fmt': draw(st.sampled_from(['json', 'gz'])), 'spec0': spec0,
            'runs': runs, 'seed': draw(st.integers(0, 10**6))}
    used_sets = [] if dparams is None else (dparams if isinstance(dparams, list) else [dparams])
    used_sets = used_sets + [r_['grow'][1] for r_ in runs if r_.get('grow', [None])[0] == 'dparam']
    if splitting or dec_name == 'MemoryBeliefPropagationDecoder' or \
            any(v.get('error_type') in ('X', 'Z') for v in used_sets):
        # (an incomplete decoder - MBP, one-sector matching: genuine trials may
        # leave the code space, so the all-fail marking of foreign records
        # would not be conclusive)
        return case
    if draw(st.booleans()):
        # foreign records: inputs differ in exactly one respect
        how = draw(st.sampled_from(['size', 'direction', 'rate', 'rate_ulp', 'decoder']))
        f = copy.deepcopy(spec0)
        if how == 'size':
            f['ranges']['code']['parameters'] = [{'L_x': 4, 'L_y': 2}]
        elif how == 'direction':
            f['ranges']['error_model']['parameters'] = [{'r_x': 0.2, 'r_y': 0.3, 'r_z': 0.5}]
        elif how == 'rate':
            f['ranges']['error_rate'] = [0.123]
        elif how == 'rate_ulp':
            import math
            # a few ulps away from every requested rate, and equal to none
            far = []
            for r_ in rates:
                v = r_
                for _ in range(5):
                    v = math.nextafter(v, 1.0)
                far.append(v)
            f['ranges']['error_rate'] = [v for v in far if v not in rates]
        elif variants is None:
            f['ranges']['decoder'] = {'name': 'MatchingDecoder', 'parameters': {'error_type': 'X'}}
        else:
            # same decoder class, one option different from every requested set
            used = dparams if isinstance(dparams, list) else [dparams]
            used = used + [r_['grow'][1] for r_ in runs if r_.get('grow', [None])[0] == 'dparam']
            other = [v for v in variants if v not in used]
            if not other:
                return case
            f['ranges']['decoder'] = {'name': dec_name, 'parameters': other[0]}
        case['foreign'] = {'spec': f, 'n': runs[-1]['target'], 'how': how}
    return case


def interrupt_sweep(quick, seed):
    """Ctrl-C at every k-th function entry of the first run of a fresh batch
    (object construction is lazy: the first trial builds matrices, decoders,
    probability tables), continued on the same object or by a new one."""
    out = []
    step = 5 if quick else 1
    specs = []
    for dec_name, variants in sorted(DECODER_VARIANTS.items()):
        specs.append((make_spec([(2, 2)], [(1 / 3, 1 / 3, 1 / 3)], [0.1], decoder=dec_name,
                                dparams=variants[0]), 0))
    # the other method: two chains, so a step can be torn between them
    for n_init in (1, 2):
        sp = make_spec([(2, 2)], [(1 / 3, 1 / 3, 1 / 3)], [0.1, 0.2])
        sp['ranges']['method'] = {'name': 'splitting', 'parameters': {'n_init_runs': n_init}}
        specs.append((sp, 3 + n_init))
    for spec, off in specs:
        # final target 3: the continuation has work left; final target 2: it
        # may have none (the pause fell into the save of the last trial)
        for final, shift in ((3, 0), (2, 2)):
            for k in range((off + shift) % step, 700, step):
                for same in (True, False):
                    run0 = {'target': 2, 'sf': 1, 'stop': ['ki_anywhere', k, 0]}
                    if same:
                        run0['resume_same_object'] = True
                    out.append({'kind': 'history', 'fmt': 'json' if k % 2 else 'gz', 'spec0': spec,
                                'runs': [run0, {'target': final, 'sf': 1}], 'seed': seed + k})
    for spec, off in specs[-2:]:
        for k in range(0, 13):
            for final in (2, 3):
                out.append({'kind': 'history', 'fmt': 'json', 'spec0': spec, 'seed': seed + k,
                            'runs': [{'target': 2, 'sf': 1, 'stop': ['ki_decode', k, 0],
                                      'resume_same_object': True}, {'target': final, 'sf': 1}]})
    return out


def run(ctx):
    quick = ctx.tier == 'quick'
    ctx.exhaustive = True
    ctx.run_cases(enum_scenarios(quick, ctx.seed), chunk=1)
    ctx.run_cases(interrupt_sweep(quick, ctx.seed), chunk=8)
    ctx.run_hypothesis('histories', 320 if quick else 5000)
    shutil.rmtree(runner.scratch_dir('c12'), ignore_errors=True)
