"""C06 - decoding is a pure function of the syndrome."""
import json

import numpy as np
from hypothesis import strategies as st

from vf import decoding, domain, gf2

PROPERTY = 'C06'
LEVEL = 'exploration'
RULE = ('model-based histories: Hypothesis draws a decoder setup and a list '
        'of 2..40 decode(s) operations on ONE decoder object, s drawn from a '
        'pool (zero, sector-wise zero, weight-1/2 error syndromes, random '
        'error syndromes, repeat of the previous one); the model is a memo '
        'table s -> correction of a freshly built decoder. Exhaustive: all '
        'ordered pairs (s1, s) of valid syndromes on codes with <= 32 '
        'syndromes. After every step the caller\'s syndrome array and the '
        'noise model\'s cached tables / weights are compared with snapshots. '
        'Non-trivial = history containing two different non-zero syndromes; '
        'distinct = distinct case dict')
ASSUMPTIONS = [
    'deterministic decoders (matching, union-find, BP-OSD, MBP, X-cube '
    'matching) must equal a fresh decoder exactly; the randomised sweep '
    'decoders are checked for history-independent validity (format, Z-only '
    'sweep part, matching sector) only',
    'purity is established for the generated histories (<= 40 calls)',
]
MANIFEST_ENTRY = {
    'technique': 'model-based testing over generated call histories '
                 '(Hypothesis list-of-operations = one-rule state machine, '
                 'shrunk as one value) + exhaustive ordered syndrome pairs on '
                 'tiny codes; reference model = fresh decoder per syndrome; '
                 'snapshot invariants on caller arrays and cached tables',
    'level_text': 'For every step of every generated history the reused '
                  'decoder must return exactly what a fresh decoder returns, '
                  'and must leave the syndrome array, the lru-cached '
                  'probability tables and the weights bit-identical.',
    'level_note': 'A leak that needs more than 40 calls is out of reach.',
}


def make_syndrome(code, desc, rng_cache, prev):
    n = code.n
    kind = desc[0]
    e = np.zeros(2 * n, dtype=np.uint8)
    if kind == 'repeat' and prev is not None:
        return prev.copy()
    if kind in ('zero', 'repeat'):
        pass
    elif kind in ('w1', 'w2'):
        for q, p in desc[1:]:
            q = q % n
            if p in 'XY':
                e[q] ^= 1
            if p in 'YZ':
                e[n + q] ^= 1
    elif kind == 'xonly' or kind == 'zonly':
        rng = np.random.default_rng(desc[1])
        half = (rng.random(n) < 0.15).astype(np.uint8)
        if kind == 'xonly':
            e[:n] = half
        else:
            e[n:] = half
    else:
        rng = np.random.default_rng(desc[1])
        e = domain.random_bsf(rng, n, desc[2])
    return np.asarray(code.measure_syndrome(e))


def snapshot_noise(em, code, p):
    tabs = [np.array(a, copy=True) for a in em.probability_distribution(code, p)]
    w = [np.array(a, copy=True) for a in em.get_weights(code, p)]
    return tabs, w


def same_arrays(a, b):
    return all(x.dtype == y.dtype and x.shape == y.shape and np.array_equal(x, y)
               for x, y in zip(a, b))


SYNDROME_DTYPES = [np.uint8, np.int64, np.uint8, np.int32, np.uint64, np.int64]


class Stepper:
    """One decoder object driven through a history, checked after every step
    against the model (fresh decoder per syndrome) and the snapshots."""

    def __init__(self, case):
        self.case = case
        self.name = case['decoder']
        self.code, self.em, self.dec = decoding.build(case)
        self.n = self.code.n
        self.p = case['error_rate']
        self.H = gf2.to_dense(self.code.stabilizer_matrix)
        self.zrows = (self.H[:, self.n:].sum(axis=1) > 0)
        self.tag = f"{self.name}{case.get('dparams')} on {case['code'].get('cls', 'scrambled')}" \
                   f"{case['code'].get('size', '')} {case['code'].get('deformation')}"
        self.deterministic = self.name in decoding.DETERMINISTIC
        self.memo = {}
        self.tabs0, self.w0 = snapshot_noise(self.em, self.code, self.p)
        self.seq = []
        self.distinct_nonzero = set()
        self.fails = []

    def fail(self, rel, detail):
        if len(self.fails) < 5:
            self.fails.append({'relation': rel, 'detail': detail, 'sig': {'decoder': self.name}})

    def fresh_result(self, s):
        key = s.tobytes()
        if key not in self.memo:
            d2 = decoding.make_decoder(self.case, self.code, self.em)
            self.memo[key] = np.asarray(d2.decode(s.copy())).copy()
        return self.memo[key]

    def step(self, s):
        """Decode syndrome s on the reused object; returns False on failure."""
        j = len(self.seq)
        n, tag = self.n, self.tag
        self.seq.append(s)
        # the caller's array in the integer dtypes callers use (numpy's
        # default int included: np.asarray(x, dtype=int) would alias it)
        arg = s.astype(SYNDROME_DTYPES[(j + len(self.name)) % len(SYNDROME_DTYPES)])
        before = arg.copy()
        c = np.asarray(self.dec.decode(arg))
        if arg.dtype != before.dtype or not np.array_equal(arg, before):
            self.fail('syndrome_not_modified',
                      f'{tag}: decode #{j} changed the caller\'s syndrome array on '
                      f'entries {np.nonzero(arg != before)[0].tolist()[:8]}')
            return False
        if self.deterministic:
            want = self.fresh_result(s)
            if c.shape != want.shape or not np.array_equal(c, want):
                self.fail('same_as_fresh_decoder',
                          f'{tag}: decode #{j} of syndrome {np.nonzero(s)[0].tolist()} '
                          f'after history {[np.nonzero(x)[0].tolist() for x in self.seq[max(0, j - 3):j]]} '
                          f'returned {np.nonzero(c)[0].tolist()}, a fresh decoder returns '
                          f'{np.nonzero(want)[0].tolist()}')
                return False
        else:
            if c.shape != (2 * n,) or not set(np.unique(c).tolist()) <= {0, 1}:
                self.fail('valid_after_history', f'{tag}: decode #{j} format')
                return False
            cx = c.copy()
            cx[n:] = 0
            if self.name in ('SweepMatchDecoder', 'RotatedSweepMatchDecoder') and \
                    not np.array_equal(decoding.own_syndrome(self.H, cx)[self.zrows],
                                       (s.astype(np.int64) % 2)[self.zrows]):
                self.fail('valid_after_history', f'{tag}: decode #{j}: matching sector '
                          f'does not reproduce the vertex syndrome')
                return False
        if s.any():
            self.distinct_nonzero.add(s.tobytes())
        tabs1, w1 = snapshot_noise(self.em, self.code, self.p)
        if not same_arrays(self.tabs0, tabs1):
            self.fail('cached_tables_unaltered', f'{tag}: probability_distribution tables '
                      f'changed after decode #{j}')
            return False
        if not same_arrays(self.w0, w1):
            self.fail('weights_unaltered', f'{tag}: get_weights changed after decode #{j}')
            return False
        return True


def eval_case(case):
    st_ = Stepper(case)
    code, n = st_.code, st_.n
    if case['history'] == 'all_pairs':
        from checks.c04_success_iff_stabilizer import all_errors
        synd = {}
        for e in all_errors(n, 0, 4 ** n):
            s = np.asarray(code.measure_syndrome(e))
            synd.setdefault(s.tobytes(), s)
        S = list(synd.values())
        seq = []
        for s1 in S:
            for s2 in S:
                seq += [s1, s2]
    else:
        seq = []
        prev = None
        for desc in case['history']:
            s = make_syndrome(code, desc, None, prev)
            seq.append(s)
            prev = s
    for s in seq:
        if not st_.step(s):
            break
    labels = [st_.name, 'all_pairs' if case['history'] == 'all_pairs' else 'history',
              f'len>={min(len(seq) // 10 * 10, 40)}']
    if case.get('from_machine'):
        labels.append('state-machine')
    return {'fails': st_.fails, 'nontrivial': len(st_.distinct_nonzero) >= 2,
            'labels': labels, 'evals': len(seq)}


def machine_shard(seed, n_examples, steps):
    """Hypothesis stateful engine as a second generator of histories: one
    rule (decode a drawn syndrome) and an invariant; the operation list is
    recorded so that a failure is re-evaluated through eval_case and becomes
    an ordinary JSON replay file."""
    import hypothesis
    from hypothesis import settings, HealthCheck
    from hypothesis.stateful import (RuleBasedStateMachine, rule, initialize, invariant,
                                     run_state_machine_as_test)
    results = []
    failing = {}

    class PurityMachine(RuleBasedStateMachine):
        def __init__(self):
            super().__init__()
            self.st = None
            self.ops = []

        @initialize(base=history_cases(max_len=2))
        def setup(self, base):
            base = json.loads(json.dumps(base))
            base['history'] = []
            base['from_machine'] = True
            self.base = base
            self.st = Stepper(base)
            self.prev = None

        @rule(desc=syndrome_desc())
        def decode(self, desc):
            if self.st is None or self.st.fails:
                return
            s = make_syndrome(self.st.code, desc, None, self.prev)
            self.prev = s
            self.ops.append(desc)
            self.st.step(s)

        @invariant()
        def pure(self):
            if self.st is not None and self.st.fails:
                failing['case'] = dict(self.base, history=list(self.ops))
                raise AssertionError(self.st.fails[0]['relation'])

        def teardown(self):
            if self.st is not None and not self.st.fails and self.ops:
                results.append((dict(self.base, history=list(self.ops)),
                                {'fails': [], 'nontrivial': len(self.st.distinct_nonzero) >= 2,
                                 'labels': [self.st.name, 'state-machine'],
                                 'evals': len(self.ops)}))

    machine = hypothesis.seed(seed)(PurityMachine)
    try:
        run_state_machine_as_test(machine, settings=settings(
            max_examples=n_examples, stateful_step_count=steps, database=None, deadline=None,
            report_multiple_bugs=False, suppress_health_check=list(HealthCheck)))
    except AssertionError:
        pass
    if 'case' in failing:
        case = json.loads(json.dumps(failing['case']))
        from vf import runner
        results.append((case, runner.safe_eval(eval_case, case)))
    return results


def case_sig(case):
    from checks.c05_decoder_validity import case_sig as s
    return s(case)


@st.composite
def syndrome_desc(draw):
    kind = draw(st.sampled_from(['zero', 'repeat', 'w1', 'w1', 'w2', 'xonly', 'zonly',
                                 'random', 'random']))
    q = st.integers(0, 10**6)
    pl = st.sampled_from('XYZ')
    if kind == 'w1':
        return ['w1', [draw(q), draw(pl)]]
    if kind == 'w2':
        return ['w2', [draw(q), draw(pl)], [draw(q), draw(pl)]]
    if kind in ('xonly', 'zonly'):
        return [kind, draw(st.integers(0, 2**20))]
    if kind == 'random':
        return ['random', draw(st.integers(0, 2**20)),
                draw(st.sampled_from([0.01, 0.05, 0.1, 0.3]))]
    return [kind]


@st.composite
def history_cases(draw, max_len=40):
    base = draw(decoding.decoder_cases(n_errors=1))
    sz = base['code'].get('size')
    if base['decoder'] == 'RotatedSweepMatchDecoder' and \
            base['code'].get('cls') == 'RotatedToric3DCode' and sz[0] % 2 != sz[1] % 2:
        # C05 known finding (decoder cannot be constructed on the non-CSS
        # mixed-parity lattice): excluded here by construction
        base['code']['size'] = [2, 2, sz[2]]
    slow = base['decoder'] in ('MemoryBeliefPropagationDecoder',)
    mid = base['decoder'] in ('UnionFindDecoder', 'SweepMatchDecoder',
                              'RotatedSweepMatchDecoder', 'XCubeMatchingDecoder')
    top = 3 if slow else (10 if mid else max_len)
    hist = draw(st.lists(syndrome_desc(), min_size=2, max_size=top))
    base['history'] = hist
    base.pop('errors', None)
    base.pop('n_errors', None)
    return base


def pair_cases():
    out = []
    base = {'noise_deformation': None, 'noise_kwargs': {}, 'history': 'all_pairs',
            'rseed': 0}
    for cls, size in (('Planar2DCode', (2, 2)), ('RotatedPlanar2DCode', (2, 2)),
                      ('RotatedPlanar2DCode', (2, 3)), ('RotatedPlanar2DCode', (3, 2))):
        for dec, dp in (('MatchingDecoder', {}),
                        ('BeliefPropagationOSDDecoder', {'osd_order': 0}),
                        ('BeliefPropagationOSDDecoder', {'osd_order': 10, 'channel_update': True,
                                                         'max_bp_iter': 10})):
            for direction, p in (([1 / 3, 1 / 3, 1 / 3], 0.1), ([0.1, 0.1, 0.8], 0.05)):
                out.append(dict(base, decoder=dec, dparams=dp, direction=direction,
                                error_rate=p, code=domain.code_case(cls, size)))
    # prior-sensitive BP-OSD settings on CSS codes: rate and flip marginal
    # on opposite sides of 1/2, strongly biased deformed noise, product-sum
    for cls, size in (('RotatedPlanar2DCode', (3, 2)), ('Planar2DCode', (2, 2))):
        for dp, direction, p, nd in (
                ({'osd_order': 0}, [1 / 3, 1 / 3, 1 / 3], 0.7, None),
                ({'osd_order': 10}, [0.05, 0.05, 0.9], 0.6, None),
                ({'osd_order': 0, 'max_bp_iter': 3}, [0.05, 0.05, 0.9], 0.1, 'XZZX'),
                ({'osd_order': 0, 'bp_method': 'product_sum'}, [0.8, 0.1, 0.1], 0.2, 'XZZX'),
                ({'osd_order': 10, 'bp_method': 'product_sum'}, [0.1, 0.1, 0.8], 0.3, None)):
            out.append(dict(base, decoder='BeliefPropagationOSDDecoder', dparams=dp,
                            direction=direction, error_rate=p, noise_deformation=nd,
                            code=domain.code_case(cls, size)))
    # non-CSS BP-OSD
    out.append(dict(base, decoder='BeliefPropagationOSDDecoder', dparams={'osd_order': 10},
                    direction=[1 / 3, 1 / 3, 1 / 3], error_rate=0.1,
                    code=domain.code_case('RotatedPlanar2DCode', (2, 3), 'XZZX', {})))
    out.append(dict(base, decoder='BeliefPropagationOSDDecoder', dparams={'osd_order': 0},
                    direction=[0.2, 0.3, 0.5], error_rate=0.08,
                    code=domain.code_case('Planar2DCode', (2, 2), 'XY', {})))
    return out


def run(ctx):
    quick = ctx.tier == 'quick'
    ctx.exhaustive = True
    ctx.run_cases(pair_cases(), chunk=1)
    ctx.run_hypothesis('history_cases', 640 if quick else 40000,
                       max_len=25 if quick else 40)
    # second generator: Hypothesis' stateful engine (rule-based machine)
    import hashlib
    base = int(hashlib.sha256(f'C06:machine:{ctx.seed}'.encode()).hexdigest()[:6], 16)
    ctx.run_calls('machine_shard', [
        {'seed': base + i, 'n_examples': 6 if quick else 150, 'steps': 20 if quick else 40}
        for i in range(16)])
