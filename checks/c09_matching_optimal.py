"""C09 - matching is exactly minimum-weight; correctable sets are corrected."""
import itertools

import numpy as np
from hypothesis import strategies as st

from vf import decoding, domain, gf2

PROPERTY = 'C09'
LEVEL = 'exploration'
RULE = ('(i) optimality: Hypothesis draws (2-D code, size with sector kernel '
        'dimension <= bound, noise direction / deformation / rate with both '
        'flip marginals < 1/2 - 1e-3) and syndromes (all syndromes of a '
        'sector when <= 4096, random-error syndromes otherwise); oracle = '
        'minimum of w.c over the full coset (particular solution + all '
        '2^(n-rank) kernel vectors). (ii) correctability: every Pauli error '
        'of weight <= floor((d-1)/2) (all supports x all X/Y/Z assignments) '
        'on every size with d <= 5, for matching on the three 2-D codes and '
        'union-find on the toric code. (iii) every single-qubit X/Y/Z error '
        'for the sweep-match decoders on Toric3D / RotatedPlanar3D sizes '
        'with d >= 3, several tie-break seeds. Non-trivial = (i) syndrome '
        'with >= 2 defects in a sector under non-uniform weights, (ii) error '
        'of weight exactly t >= 1 containing a Y, (iii) any; distinct = '
        'distinct (setup, syndrome/error)')
ASSUMPTIONS = [
    'PyMatching discretises weights: optimality is asserted up to '
    '1e-6 * sum|w|',
    'optimality is decided only where the coset can be enumerated '
    '(kernel dimension <= 20 quick / 22 thorough)',
    'a single-qubit error is only guaranteed correctable when '
    'floor((d-1)/2) >= 1, so sizes with d = 2 are outside claim (iii)',
]
MANIFEST_ENTRY = {
    'technique': 'differential against an exhaustive coset minimiser (own '
                 'GF(2) solve + kernel enumeration) on Hypothesis-drawn noise '
                 'and syndromes; exhaustive enumeration of all weight <= t '
                 'Pauli errors; success oracle = own stabilizer membership',
    'level_text': 'The decoder\'s sector weight is compared with the true '
                  'minimum over all solutions of the syndrome equation on '
                  'small lattices with biased/deformed (non-uniform) weights; '
                  'every correctable error up to the bound is decoded and the '
                  'residual tested for stabilizer membership.',
    'level_note': 'Lattices whose coset cannot be enumerated are not covered '
                  'by (i); sizes with d > 5 only by thorough sampling.',
}

TWO_D = ['Toric2DCode', 'Planar2DCode', 'RotatedPlanar2DCode']


def sector_problem(Hs):
    """Hs dense (r x n) -> (rows ints, kernel basis ints)."""
    rows = gf2.rows_to_ints(Hs)
    n = Hs.shape[1]
    return rows, gf2.kernel(rows, n)


def coset_min(rows, ker, n, s_bits, w):
    x0 = gf2.solve(rows, n, s_bits)
    if x0 is None:
        return None
    vecs = np.array([x0], dtype=np.uint64)
    for b in ker:
        vecs = np.concatenate([vecs, vecs ^ np.uint64(b)])
    best = np.inf
    shifts = np.arange(n, dtype=np.uint64)
    for lo in range(0, len(vecs), 1 << 16):
        chunk = vecs[lo:lo + (1 << 16)]
        bits = ((chunk[:, None] >> shifts[None, :]) & np.uint64(1)).astype(np.float64)
        best = min(best, float((bits @ w).min()))
    return best


def optimal_case(case, fail):
    code, em, dec = decoding.build(case)
    n = code.n
    p = case['error_rate']
    pi, px, py, pz = [np.asarray(a, float) for a in em.probability_distribution(code, p)]
    qx, qz = px + py, pz + py
    wx = np.log((1 - qx) / qx)
    wz = np.log((1 - qz) / qz)
    Hz = gf2.to_dense(code.Hz)
    Hx = gf2.to_dense(code.Hx)
    H = gf2.to_dense(code.stabilizer_matrix)
    zmask = np.asarray(code.z_indices)
    xmask = np.asarray(code.x_indices)
    rng = np.random.default_rng(case['rseed'])
    probs = {'X': sector_problem(Hz), 'Z': sector_problem(Hx)}
    if max(len(probs['X'][1]), len(probs['Z'][1])) > case['max_kernel']:
        return 0, [], 'too_big'
    # errors -> syndromes
    errs = []
    if case['syndromes'] == 'all':
        # every syndrome of each sector is reached by some error: enumerate
        # one preimage per syndrome via random + single-qubit errors
        for q in range(n):
            for a, b in ((1, 0), (0, 1), (1, 1)):
                e = np.zeros(2 * n, dtype=np.uint8)
                e[q], e[n + q] = a, b
                errs.append(e)
    for j in range(case['n_random']):
        rate = [0.05, 0.1, 0.2, 0.35, 0.5][j % 5]
        errs.append(domain.random_bsf(rng, n, rate))
    nt_keys = []
    evals = 0
    nonuniform = (np.ptp(wx) > 1e-9) or (np.ptp(wz) > 1e-9)
    for e in errs:
        s = np.asarray(code.measure_syndrome(e))
        c = np.asarray(dec.decode(s.copy())).astype(np.int64)
        own_s = decoding.own_syndrome(H, e)
        et = (case.get('dparams') or {}).get('error_type')
        for sec, mask, w, cpart in (('X', zmask, wx, c[:n]), ('Z', xmask, wz, c[n:])):
            if et is not None and et != sec:
                # one-sector matching leaves the other sector alone
                if cpart.any():
                    fail('sector_reproduces_syndrome',
                         f'error_type={et}: the {sec} part of the correction is not zero')
                    return evals, nt_keys, 'ok'
                continue
            rows, ker = probs[sec]
            sb = [int(v) for v in own_s[mask]]
            Hs = Hz if sec == 'X' else Hx
            if not np.array_equal((Hs @ cpart) % 2, np.array(sb)):
                fail('sector_reproduces_syndrome', f'{sec}-sector correction has the wrong syndrome')
                return evals, nt_keys, 'ok'
            got = float(cpart @ w)
            best = coset_min(rows, ker, n, sb, w)
            tol = 1e-6 * float(np.abs(w).sum())
            evals += 1
            if got > best + tol:
                fail('minimum_weight',
                     f'{sec}-sector: decoder weight {got:.9f} > minimum {best:.9f} '
                     f'(tol {tol:.2e}) for syndrome of error {np.nonzero(e)[0].tolist()}; '
                     f'correction {np.nonzero(cpart)[0].tolist()}')
                return evals, nt_keys, 'ok'
            if sum(sb) >= 2 and nonuniform and len(nt_keys) < 300:
                nt_keys.append(f"{case['code']['cls']}{case['code']['size']}{case['direction']}"
                               f"{case.get('noise_deformation')}{p}:{sec}:{''.join(map(str, sb))}")
    return evals, nt_keys, 'ok'


def weight_le_t_errors(n, t, rng, limit, paulis='XYZ'):
    pool = tuple(ab for ab, nm in (((1, 0), 'X'), ((1, 1), 'Y'), ((0, 1), 'Z')) if nm in paulis)
    out = []
    for w in range(1, t + 1):
        for qs in itertools.combinations(range(n), w):
            if len(pool) == 1:
                out.append((qs, pool * w))
                continue
            for letters in itertools.product(pool, repeat=w):
                out.append((qs, letters))
    if limit and len(out) > limit:
        pick = rng.choice(len(out), size=limit, replace=False)
        out = [out[int(i)] for i in sorted(pick)]
    return out


def correctable_case(case, fail):
    code, em, dec = decoding.build(case)
    n = code.n
    d = int(code.d)
    t = (d - 1) // 2
    H = gf2.to_dense(code.stabilizer_matrix)
    span = gf2.Span(gf2.rows_to_ints(H))
    rng = np.random.default_rng(case['rseed'])
    errs = weight_le_t_errors(n, t, rng, case.get('limit'), case.get('paulis', 'XYZ'))
    lo, hi = case.get('lo', 0), case.get('hi', len(errs))
    nt_keys = []
    evals = 0
    for qs, letters in errs[lo:hi]:
        e = np.zeros(2 * n, dtype=np.uint8)
        for q, (a, b) in zip(qs, letters):
            e[q], e[n + q] = a, b
        c = np.asarray(dec.decode(np.asarray(code.measure_syndrome(e)))).astype(np.uint8)
        tot = (e + c) % 2
        member = span.contains(gf2.row_to_int(tot))
        lib = bool(code.is_success(tot))
        evals += 1
        if not member or not lib:
            pl = ''.join('IXZY'[a + 2 * b] for a, b in letters)
            fail('corrects_up_to_t',
                 f'error {pl} on qubits {list(qs)} (weight {len(qs)} <= t={t}, d={d}) '
                 f'is not corrected: residual in stabilizer group={member}, is_success={lib}')
            break
        if len(qs) == t and (1, 1) in letters and len(nt_keys) < 400:
            nt_keys.append(f"{case['decoder']}{case['code']['cls']}{case['code']['size']}:{qs}:{letters}")
    return evals, nt_keys, f'd={d}'


def sweepmatch_case(case, fail):
    code, em, dec = decoding.build(case)
    n = code.n
    d = int(code.d)
    H = gf2.to_dense(code.stabilizer_matrix)
    span = gf2.Span(gf2.rows_to_ints(H))
    nt_keys = []
    evals = 0
    if d < 3:
        return 0, [], 'd<3-outside-claim'
    for seed in case['seeds']:
        dec.sweeper._rng = np.random.default_rng(seed)
        for q in range(n):
            for a, b in ((1, 0), (1, 1), (0, 1)):
                e = np.zeros(2 * n, dtype=np.uint8)
                e[q], e[n + q] = a, b
                c = np.asarray(dec.decode(np.asarray(code.measure_syndrome(e)))).astype(np.uint8)
                tot = (e + c) % 2
                evals += 1
                if not span.contains(gf2.row_to_int(tot)) or not code.is_success(tot):
                    fail('sweepmatch_corrects_single_qubit',
                         f'{"IXZY"[a + 2 * b]} on qubit {q} {code.qubit_coordinates[q]} '
                         f'(tie-break seed {seed}) is not corrected')
                    return evals, nt_keys, f'd={d}'
                if len(nt_keys) < 300:
                    nt_keys.append(f"{case['decoder']}{case['code']['size']}:{q}:{a}{b}")
    return evals, nt_keys, f'd={d}'


def eval_case(case):
    fails = []

    def fail(rel, detail):
        if len(fails) < 4:
            fails.append({'relation': rel, 'detail': detail})
    kind = case['kind']
    if kind == 'optimal':
        evals, nt, lab = optimal_case(case, fail)
    elif kind == 'correctable':
        evals, nt, lab = correctable_case(case, fail)
    else:
        evals, nt, lab = sweepmatch_case(case, fail)
    tag = f"{case['decoder']} {case['code']['cls']}{case['code']['size']} " \
          f"r={case['direction']} p={case['error_rate']} {case.get('noise_deformation')}"
    for f in fails:
        f['sig'] = {'decoder': case['decoder'], 'bucket': kind}
        f['detail'] = tag + ': ' + f['detail']
    labels = [kind, case['decoder'], lab, case['code']['cls']]
    if kind == 'optimal':
        r = case['direction']
        labels.append('rate>1/2' if case['error_rate'] > 0.5 else 'rate<=1/2')
        if case.get('noise_deformation') and abs(r[0] - r[2]) > 1e-9:
            labels.append('nonuniform-weights' + (',rate>1/2' if case['error_rate'] > 0.5 else ''))
    return {'fails': fails, 'nontrivial': False, 'nontrivial_keys': nt,
            'labels': labels, 'evals': max(evals, 1)}


@st.composite
def optimal_cases(draw, max_kernel=18, n_random=12):
    cls = draw(st.sampled_from(TWO_D))
    top = {'Toric2DCode': 4, 'Planar2DCode': 4, 'RotatedPlanar2DCode': 6}[cls]
    size = [draw(st.integers(2, top)), draw(st.integers(2, top))]
    # direction / rate with both flip marginals below 1/2
    r = draw(domain.directions())
    # (the bound is on the flip marginals p (r_x + r_y), p (r_z + r_y), not on
    # the total rate: depolarising noise qualifies up to p = 3/4)
    p = draw(st.sampled_from([0.01, 0.05, 0.1, 0.2, 0.3, 0.45, 0.55, 0.65, 0.74, 0.9]))
    # zero marginal -> infinite weight; keep every marginal positive so the
    # log-likelihood weights are finite (the claim is about finite weights)
    if min(r[0] + r[1], r[2] + r[1]) <= 0:
        r = [0.9 * x + 0.1 / 3 for x in r]
    nd, nk = (None, {})
    if draw(st.booleans()):
        nd, nk = draw(st.sampled_from(domain.deformations(cls)))
    # largest flip marginal per unit rate over all Pauli relabellings a
    # deformation can apply to a qubit
    hi = max(r[0] + r[1], r[2] + r[1])
    if nd == 'XY':            # Y <-> Z on every qubit
        hi = max(r[0] + r[2], r[1] + r[2])
    elif nd not in (None, 'XZZX'):
        hi = max(r[0] + r[1], r[0] + r[2], r[1] + r[2])
    # a third of the cases sit just below the bound, where one kind of edge
    # is almost free and the optimum is most sensitive to the weights
    if p * hi >= 0.5 - 1e-3 or draw(st.integers(0, 2)) == 0:
        p = min(1.0, draw(st.sampled_from([0.45, 0.8, 0.9, 0.98, 0.998])) * 0.5 / hi)
    et = draw(st.sampled_from([None, None, 'X', 'Z']))
    return {'kind': 'optimal', 'decoder': 'MatchingDecoder',
            'dparams': {} if et is None else {'error_type': et},
            'code': domain.code_case(cls, size), 'direction': [float(x) for x in r],
            'noise_deformation': nd, 'noise_kwargs': nk, 'error_rate': float(p),
            'syndromes': 'all', 'n_random': n_random, 'max_kernel': max_kernel,
            'rseed': draw(st.integers(0, 2**30))}


def correctable_cases(quick, seed):
    out = []
    base = {'kind': 'correctable', 'dparams': {}, 'direction': [1 / 3, 1 / 3, 1 / 3],
            'noise_deformation': None, 'noise_kwargs': {}, 'error_rate': 0.1,
            'rseed': seed}
    top = 6
    for cls in TWO_D:
        for size in itertools.product(range(3, top + 1), repeat=2):
            d = min(size)
            if d > 5:
                continue
            out.append(dict(base, decoder='MatchingDecoder', code=domain.code_case(cls, size)))
    for size in itertools.product(range(3, 7), repeat=2):
        d = min(size)
        if d > 5:
            continue
        n = 2 * size[0] * size[1]
        t = (d - 1) // 2
        total = 3 * n + (9 * n * (n - 1) // 2 if t >= 2 else 0)
        step = 800
        if quick and d == 5 and size != (5, 5):
            # quick: single-type errors only on the rectangular d = 5 tori
            for paulis in 'XZ':
                out.append(dict(base, decoder='UnionFindDecoder', paulis=paulis,
                                code=domain.code_case('Toric2DCode', size)))
            continue
        for lo in range(0, total, step):
            out.append(dict(base, decoder='UnionFindDecoder',
                            code=domain.code_case('Toric2DCode', size),
                            lo=lo, hi=min(total, lo + step)))
    # t = 3 on the smallest d = 7 tori: single-type errors (all supports)
    for size, paulis in () if quick else (((7, 7), 'X'), ((7, 7), 'Z'), ((7, 8), 'X'), ((8, 7), 'Z')):
        n = 2 * size[0] * size[1]
        total = n + n * (n - 1) // 2 + n * (n - 1) * (n - 2) // 6
        if quick:
            # every fourth block of supports
            blocks = list(range(0, total, 1500))[::4]
        else:
            blocks = list(range(0, total, 1500))
        for lo in blocks:
            out.append(dict(base, decoder='UnionFindDecoder', paulis=paulis,
                            code=domain.code_case('Toric2DCode', size),
                            lo=lo, hi=min(total, lo + 1500)))
    return out


def sweepmatch_cases(quick):
    out = []
    base = {'kind': 'sweepmatch', 'dparams': {}, 'direction': [1 / 3, 1 / 3, 1 / 3],
            'noise_deformation': None, 'noise_kwargs': {}, 'error_rate': 0.1,
            'seeds': [0, 1] if quick else [0, 1, 2, 3, 4]}
    top = 4 if quick else 5
    # the claim does not depend on the prior the decoder was built with:
    # one-sided, two-sided and zero-rate priors besides the depolarising one
    priors = [([1 / 3, 1 / 3, 1 / 3], 0.1), ([0, 0, 1], 0.1), ([1, 0, 0], 0.1), ([1 / 3, 1 / 3, 1 / 3], 0.0),
              ([0, 1, 0], 0.2), ([0.5, 0, 0.5], 0.05), ([0, 0, 1], 0.0), ([0.5, 0.5, 0], 0.3)]
    for i, size in enumerate(itertools.product(range(3, top + 1), repeat=3)):
        for j in ((0, 1 + i % 7) if quick else (0, 1 + i % 7, 1 + (i + 3) % 7)):
            base = dict(base, direction=priors[j][0], error_rate=priors[j][1])
            out.append(dict(base, decoder='SweepMatchDecoder',
                            code=domain.code_case('Toric3DCode', size)))
        base = dict(base, direction=priors[(3 * i) % 8][0], error_rate=priors[(3 * i) % 8][1])
        # every documented budget buys at least one full round of the eight
        # sweep directions, which is what a single-qubit error needs
        for dp in ({}, {'max_rounds': 1}, {'max_rounds': 2}, {'max_rounds': 5}):
            if dp and quick and sum(size) % 2:
                continue
            out.append(dict(base, decoder='RotatedSweepMatchDecoder', dparams=dp,
                            code=domain.code_case('RotatedPlanar3DCode', size)))
    return out


def run(ctx):
    quick = ctx.tier == 'quick'
    ctx.run_cases(correctable_cases(quick, ctx.seed) + sweepmatch_cases(quick), chunk=1)
    ctx.run_hypothesis('optimal_cases', 240 if quick else 4000,
                       max_kernel=17 if quick else 21, n_random=10 if quick else 40)
