"""C18 - error probabilities multiply per qubit and normalise."""
import math

import numpy as np
from hypothesis import strategies as st

from vf import domain

PROPERTY = 'C18'
LEVEL = 'exploration'
RULE = ('Hypothesis draws (direction with emphasis r_y > 0, error rate incl. '
        'endpoints, noise deformation, code). On codes with n <= 6 all 4^n '
        'errors are enumerated (sum to one, each equals the per-qubit '
        'product, log form); on larger codes seeded random errors in '
        'uint8/int64/uint dtypes; single-qubit Metropolis moves: the '
        'likelihood ratio and the log-probability returned by '
        'SplittingSimulation.get_next_error; generate() with its default '
        'rng: successive draws distinct on codes where a collision has '
        'probability < 1e-9, total-variation distance to the product '
        'distribution on a 4-qubit code. Non-trivial = an error '
        'containing I, X, Y and Z evaluated under r_y not in {0,1}; '
        'distinct = distinct case dict')
ASSUMPTIONS = [
    'the default-rng sub-check uses the library\'s own entropy-seeded generator '
    '(not reproducible from VERIF_SEED); it only fails on events whose '
    'probability under the stated distribution is below 1e-9',
    'the per-qubit channel table is the one validated by C07 (recomputed '
    'here from direction, rate and get_deformation)',
    'relative tolerance 1e-10 on probabilities, absolute 1e-9 on sums and '
    'log-probabilities',
]
MANIFEST_ENTRY = {
    'technique': 'Hypothesis over noise parameters with full 4^n enumeration '
                 'on n <= 6 and random errors elsewhere; oracle = product of '
                 'per-qubit channel probabilities; metamorphic likelihood '
                 'ratio for single-qubit moves and the acceptance probability '
                 'observed inside the Metropolis step; default-rng draws of '
                 'generate() checked for independence and distribution',
    'level_text': 'error_probability is compared with the closed-form '
                  'product for every error of small codes (normalisation '
                  'follows exactly) and for random errors on larger ones, in '
                  'linear and log form; the Metropolis step is exercised '
                  'through get_next_error with seeded numpy state.',
    'level_note': 'Larger codes are sampled.',
}

TINY = [('RotatedPlanar2DCode', (2, 2)), ('RotatedPlanar2DCode', (2, 3)),
        ('RotatedPlanar2DCode', (3, 2)), ('Planar2DCode', (2, 2))]
BIGGER = [('Toric2DCode', (2, 2)), ('Toric2DCode', (3, 4)), ('Planar2DCode', (3, 3)),
          ('RotatedPlanar2DCode', (3, 3)), ('Toric3DCode', (2, 2, 2)),
          ('RotatedPlanar3DCode', (2, 2, 2)), ('XCubeCode', (2, 2, 2)),
          ('RhombicPlanarCode', (2, 2, 2)), ('Color666PlanarCode', (1, 1)),
          ('Color488Code', (1, 1)), ('RotatedToric3DCode', (2, 3, 2))]


def table(code, r, p, name, kwargs):
    from checks.c07_noise_model import expected_table
    return expected_table(code, r, p, name, kwargs)


def ref_prob(t, e, n):
    """(probability, log-probability) by the product formula."""
    prob, logp = 1.0, 0.0
    for i in range(n):
        s = ('I', 'X', 'Z', 'Y')[int(e[i]) + 2 * int(e[n + i])]
        q = float(t[s][i])
        prob *= q
        logp += math.log(q) if q > 0 else -math.inf
    return prob, logp


def close(a, b, rel=1e-10, ab=1e-300):
    return abs(a - b) <= rel * max(abs(a), abs(b)) + ab


def default_rng_case(case, fail):
    """generate() with the documented default rng=None (the tutorial and the
    GUI call it that way): successive draws are independent samples of the
    product distribution.  Outcomes of the library's own entropy-seeded
    generator are not reproducible, so only events of probability < 1e-9
    under the stated distribution count as failures."""
    from panqec.error_models import PauliErrorModel
    cls, size = case['cls'], tuple(case['size'])
    r, p = case['direction'], case['error_rate']
    name, kwargs = case.get('deformation'), case.get('kwargs', {})
    code = domain.build_code(cls, size)
    n = code.n
    em = PauliErrorModel(*r, deformation_name=name, deformation_kwargs=dict(kwargs))
    t = table(code, r, p, name, kwargs)
    draws = [np.asarray(em.generate(code, p)).astype(np.uint8) for _ in range(case['n_draws'])]
    # (a) collisions: P(two given draws equal) = prod_q sum_s t_s(q)^2
    coll = 1.0
    for q in range(n):
        coll *= sum(float(t[s][q]) ** 2 for s in 'IXYZ')
    pairs = len(draws) * (len(draws) - 1) / 2
    distinct = len({d.tobytes() for d in draws})
    if pairs * coll < 1e-9 and distinct != len(draws):
        fail('default_rng_draws_independent',
             f'{len(draws)} successive generate() calls without an rng returned only '
             f'{distinct} distinct errors (collision probability {pairs * coll:.1e})')
    # (b) small codes: empirical distribution against the product formula
    if n <= 4:
        counts = {}
        for d in draws:
            counts[d.tobytes()] = counts.get(d.tobytes(), 0) + 1
        from checks.c04_success_iff_stabilizer import all_errors
        tv = 0.0
        for e in all_errors(n, 0, 4 ** n):
            pr, _ = ref_prob(t, e, n)
            tv += abs(counts.get(e.astype(np.uint8).tobytes(), 0) / len(draws) - pr)
        tv /= 2
        if tv > case['tv_bound']:
            fail('default_rng_matches_distribution',
                 f'total-variation distance {tv:.3f} between {len(draws)} default-rng draws '
                 f'and the product distribution (bound {case["tv_bound"]})')
    return len(draws), distinct >= 2


def eval_case(case):
    from panqec.error_models import PauliErrorModel
    import warnings
    fails = []

    def fail(rel, detail):
        if len(fails) < 6:
            fails.append({'relation': rel, 'detail': detail})
    if case['kind'] == 'default_rng':
        evals, nt = default_rng_case(case, fail)
        for f in fails:
            f['sig'] = {'bucket': 'default_rng'}
            f['detail'] = f"{case['cls']}{tuple(case['size'])} r={case['direction']} p={case['error_rate']} " \
                          f"{case.get('deformation')}: " + f['detail']
        return {'fails': fails, 'nontrivial': nt, 'labels': ['default_rng'], 'evals': evals}

    cls, size = case['cls'], tuple(case['size'])
    r, p = case['direction'], case['error_rate']
    name, kwargs = case.get('deformation'), case.get('kwargs', {})
    code = domain.build_code(cls, size)
    n = code.n
    # another model that is easily mistaken for this one is used first on the
    # same code object and rate: same deformation name along another axis, or
    # a direction that agrees to five decimals (bias 1e5 against pure noise)
    sib = case.get('sibling')
    if sib:
        if sib == 'axis' and name == 'XZZX' and cls in domain.AXES:
            other = [a for a in domain.AXES[cls] if a != (kwargs or {}).get(
                'deformation_axis', domain.DEFAULT_AXIS.get(cls))]
            sib_em = PauliErrorModel(*r, deformation_name=name,
                                     deformation_kwargs={'deformation_axis': other[0]}) if other else None
        else:
            j = int(np.argmax(r))
            r2 = [float(x) for x in r]
            k2 = (j + 1) % 3
            r2[j], r2[k2] = r2[j] - 4e-6, r2[k2] + 4e-6
            sib_em = PauliErrorModel(*r2, deformation_name=name, deformation_kwargs=dict(kwargs))
        if sib_em is not None:
            sib_em.error_probability(np.zeros(2 * code.n, dtype=np.uint8), code, p)
            sib_em.probability_distribution(code, p)
    em = PauliErrorModel(*r, deformation_name=name, deformation_kwargs=dict(kwargs))
    t = table(code, r, p, name, kwargs)
    rng = np.random.default_rng(case['rseed'])
    if case.get('used_by_decoder') and 0 < p < 1:
        # the model has already served a decoder (as it does in every
        # simulation): decoders read its tables and must leave them alone
        from panqec.decoders import BeliefPropagationOSDDecoder, MatchingDecoder
        e0 = (rng.random(2 * n) < 0.2).astype(np.uint8)
        users = [BeliefPropagationOSDDecoder(code, em, p, max_bp_iter=5, osd_order=0,
                                             channel_update=True)]
        if code.is_css and max(r[0] + r[1], r[2] + r[1]) * p < 0.5 and cls in (
                'Toric2DCode', 'Planar2DCode', 'RotatedPlanar2DCode'):
            users.append(MatchingDecoder(code, em, p))
        for dec_ in users:
            dec_.decode(code.measure_syndrome(e0))
            dec_.decode(code.measure_syndrome(e0))
    nt = False
    evals = 0
    warnings.simplefilter('ignore')

    def check(e, tag):
        nonlocal nt
        pr, lp = ref_prob(t, e, n)
        got = float(em.error_probability(e, code, p))
        if not close(got, pr):
            fail('probability_is_product', f'{tag} e={np.asarray(e).tolist()}: '
                 f'error_probability={got!r}, product formula={pr!r}')
            return got
        gl = float(em.error_probability(e, code, p, log_output=True))
        if (math.isinf(lp) != math.isinf(gl)) or (not math.isinf(lp) and abs(gl - lp) > 1e-9 * max(1, abs(lp))):
            fail('log_form', f'{tag} e={np.asarray(e).tolist()}: log_output={gl!r}, log of product={lp!r}')
        letters = {('I', 'X', 'Z', 'Y')[int(e[i]) + 2 * int(e[n + i])] for i in range(n)}
        if letters == set('IXYZ') and 0 < r[1] < 1:
            nt = True
        return got

    if case['kind'] == 'exhaustive':
        from checks.c04_success_iff_stabilizer import all_errors
        E = all_errors(n, 0, 4 ** n)
        total = 0.0
        for e in E:
            total += check(e, 'exh')
            evals += 1
            if fails:
                break
        if not fails and abs(total - 1) > 1e-9:
            fail('normalised', f'sum over all 4^{n} errors = {total!r}')
    else:
        for j in range(case['n_errors']):
            dens = rng.choice([0.1, 0.3, 0.5, 0.9])
            e = (rng.random(2 * n) < dens).astype(np.uint8)
            dt = [np.uint8, np.int64, np.uint64, np.int32][j % 4]
            check(e.astype(dt), f'dtype={dt.__name__}')
            evals += 1
            if fails:
                break
    # Metropolis single-qubit moves: ratio of likelihoods
    for _ in range(6):
        e = (rng.random(2 * n) < 0.3).astype(np.uint8)
        i = int(rng.integers(0, n))
        move = rng.choice(['X', 'Y', 'Z'])
        e2 = e.copy()
        if move in 'XY':
            e2[i] ^= 1
        if move in 'YZ':
            e2[n + i] ^= 1
        _, l1 = ref_prob(t, e, n)
        _, l2 = ref_prob(t, e2, n)
        g1 = float(em.error_probability(e, code, p, log_output=True))
        g2 = float(em.error_probability(e2, code, p, log_output=True))
        if not (math.isinf(l1) or math.isinf(l2)):
            if not abs((g2 - g1) - (l2 - l1)) <= 1e-9 * max(1, abs(l2 - l1)):
                fail('likelihood_ratio', f'move {move} on qubit {i}: '
                     f'exp(dlogP)={math.exp(g2 - g1)!r}, true ratio={math.exp(l2 - l1)!r}')
                break
        evals += 1
    # the real Metropolis step
    # (the Metropolis move needs some Pauli of non-zero probability to
    # propose: rates whose p * r_sigma underflow to 0 are p = 0 in effect)
    if case.get('metropolis') and 1e-9 <= p < 1 and not fails:
        from panqec.simulation import SplittingSimulation
        from panqec.decoders import BeliefPropagationOSDDecoder
        # the decoder's prior is an argument of its own: half of the cases
        # decode with a prior model (and rate) other than the simulated noise
        if case['rseed'] % 2:
            dec = BeliefPropagationOSDDecoder(code, PauliErrorModel(0.4, 0.2, 0.4),
                                              min(0.3, max(0.05, p / 2)), max_bp_iter=5, osd_order=0)
        else:
            dec = BeliefPropagationOSDDecoder(code, em, p, max_bp_iter=5, osd_order=0)
        sim = SplittingSimulation(code, em, [dec], [p], n_init_runs=1, verbose=False)
        np.random.seed(case['rseed'] % (2**32))
        prev = (rng.random(2 * n) < 0.3).astype(np.uint8)
        # start from an error of non-zero probability
        for i in range(n):
            s = ('I', 'X', 'Z', 'Y')[int(prev[i]) + 2 * int(prev[n + i])]
            if t[s][i] == 0:
                prev[i] = prev[n + i] = 0
        if ref_prob(t, prev, n)[0] > 0:
            for _ in range(12):
                # observe the acceptance probability the step actually uses
                seen_q = []
                orig_choice = np.random.choice

                def spy_choice(a, *args, **kw):
                    if kw.get('p') is not None and len(kw['p']) == 2:
                        seen_q.append(float(kw['p'][1]))
                    return orig_choice(a, *args, **kw)
                np.random.choice = spy_choice
                try:
                    nxt, lp = sim.get_next_error(dec, p, prev)
                finally:
                    np.random.choice = orig_choice
                nxt = np.asarray(nxt)
                if len(seen_q) == 1:
                    # the proposal differs from prev on one qubit; if it was
                    # accepted we know it, otherwise bound q by the best /
                    # worst single-qubit move: check exactly when accepted
                    moved = np.nonzero(nxt != prev)[0]
                    if len(moved):
                        _, l_new = ref_prob(t, nxt, n)
                        _, l_old = ref_prob(t, prev, n)
                        true_q = 0.0 if math.isinf(l_new) else math.exp(min(0.0, l_new - l_old))
                        if not abs(seen_q[0] - true_q) <= 1e-9:
                            fail('metropolis_acceptance_is_likelihood_ratio',
                                 f'acceptance probability {seen_q[0]!r} used for a move whose '
                                 f'true likelihood ratio gives {true_q!r}')
                            break
                    elif seen_q[0] > 1 + 1e-12 or seen_q[0] < -1e-12:
                        fail('metropolis_acceptance_is_probability', f'q = {seen_q[0]!r}')
                        break
                diffq = set(np.nonzero(nxt != prev)[0] % n)
                if len(diffq) > 1:
                    fail('metropolis_single_qubit_move', f'{sorted(diffq)}')
                    break
                _, want = ref_prob(t, nxt, n)
                if math.isinf(want) != math.isinf(float(lp)) or \
                        (not math.isinf(want) and abs(float(lp) - want) > 1e-9 * max(1, abs(want))):
                    fail('metropolis_log_probability',
                         f'get_next_error returned logP={float(lp)!r} for an error whose '
                         f'product-formula logP is {want!r}')
                    break
                prev = nxt.astype(np.uint8)
                evals += 1
    for f in fails:
        f['sig'] = {'bucket': 'prob'}
        f['detail'] = f"{cls}{size} r={r} p={p} {name} {kwargs}: " + f['detail']
    labels = [case['kind'], 'ry>0' if r[1] > 0 else 'ry=0',
              'deformed-noise' if name else 'plain-noise',
              'p-end' if p in (0, 1) else 'p-interior'] + (
        ['after-sibling-model:' + sib] if sib else [])
    return {'fails': fails, 'nontrivial': nt, 'labels': labels, 'evals': evals}


@st.composite
def cases(draw, kind='exhaustive'):
    cls, size = draw(st.sampled_from(TINY if kind == 'exhaustive' else BIGGER))
    r = draw(st.one_of(domain.directions(), domain.directions(interior_only=True)))
    p = draw(st.one_of(st.sampled_from([0.0, 1.0, 0.5, 0.1, 0.3, 0.01]),
                       st.floats(0.0, 1.0)))
    name, kw = draw(st.sampled_from(domain.deformations(cls)))
    return {'kind': kind, 'cls': cls, 'size': list(size),
            'direction': domain.as_given(draw, r), 'error_rate': domain.as_given(draw, [p])[0],
            'deformation': name, 'kwargs': kw, 'n_errors': 24,
            'metropolis': draw(st.booleans()),
            'sibling': draw(st.sampled_from([None, None, 'axis', 'direction'])),
            'used_by_decoder': draw(st.booleans()),
            'rseed': draw(st.integers(0, 2**30))}


def default_rng_cases(quick):
    out = []
    for cls, size, r, p, name, nd, tv in (
            ('Toric2DCode', (3, 3), [1 / 3, 1 / 3, 1 / 3], 0.5, None, 40, None),
            ('Toric2DCode', (4, 4), [0.1, 0.1, 0.8], 0.3, 'XZZX', 40, None),
            ('RotatedPlanar3DCode', (2, 2, 2), [0.2, 0.3, 0.5], 0.4, None, 40, None),
            ('RotatedPlanar2DCode', (2, 2), [0.2, 0.3, 0.5], 0.6, None, 4000, 0.35),
            ('RotatedPlanar2DCode', (2, 2), [0.1, 0.1, 0.8], 0.3, 'XZZX', 4000, 0.35)):
        out.append({'kind': 'default_rng', 'cls': cls, 'size': list(size), 'direction': r,
                    'error_rate': p, 'deformation': name, 'kwargs': {},
                    'n_draws': nd if quick or tv is None else 4 * nd, 'tv_bound': tv})
    return out


def run(ctx):
    ctx.run_cases(default_rng_cases(ctx.tier == 'quick'), chunk=1)
    if ctx.tier == 'quick':
        ctx.run_hypothesis('cases', 160, kind='exhaustive')
        ctx.run_hypothesis('cases', 480, kind='random')
    else:
        ctx.run_hypothesis('cases', 8000, kind='exhaustive')
        ctx.run_hypothesis('cases', 40000, kind='random')
