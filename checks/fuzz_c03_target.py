#!/venv/bin/python
"""atheris target for C03: bytes -> (n, representation tags, shapes, bit
strings) -> bs_prod; the reference oracle is inside the target.
Usage: c03_fuzz_target.py <out_json> [libFuzzer flags] <corpus_dir>
A mismatch is written to <out_json> as a replayable 'raw' case and the
process exits through an exception (libFuzzer saves the input as well)."""
import json
import os
import sys

VERIF = os.path.dirname(os.path.dirname(os.path.abspath(__file__)))
sys.path.insert(0, VERIF)
sys.path.insert(0, os.path.join(VERIF, '.deps'))
REPO = os.environ.get('VERIF_REPO', '/repo')
sys.path.insert(0, REPO)

import atheris  # noqa: E402

OUT = sys.argv[1]
COUNT = {'n': 0, 'nt': 0}

with atheris.instrument_imports(include=['panqec.bpauli', 'panqec.bsparse']):
    from panqec import bpauli  # noqa: E402

import numpy as np  # noqa: E402
from checks import c03_pauli_algebra as c03  # noqa: E402


def decode(data):
    fdp = atheris.FuzzedDataProvider(data)
    n = fdp.ConsumeIntInRange(1, 300)
    ra = c03.REPS[fdp.ConsumeIntInRange(0, len(c03.REPS) - 1)]
    rb = c03.REPS[fdp.ConsumeIntInRange(0, len(c03.REPS) - 1)]
    na = fdp.ConsumeIntInRange(1, 4)
    nb = fdp.ConsumeIntInRange(1, 4)
    a2d = fdp.ConsumeBool()
    b2d = fdp.ConsumeBool()
    rows = []
    for _ in range(na + nb):
        mode = fdp.ConsumeIntInRange(0, 3)
        if mode == 0:
            raw = fdp.ConsumeBytes((2 * n + 7) // 8)
            raw = raw + bytes((2 * n + 7) // 8 - len(raw))
            bits = np.unpackbits(np.frombuffer(raw, dtype=np.uint8))[:2 * n]
        elif mode == 1:
            bits = np.ones(2 * n, dtype=np.uint8)
        elif mode == 2:
            bits = np.zeros(2 * n, dtype=np.uint8)
            for _ in range(fdp.ConsumeIntInRange(0, 6)):
                bits[fdp.ConsumeIntInRange(0, 2 * n - 1)] ^= 1
        else:
            bits = np.concatenate([np.ones(n), np.zeros(n)]).astype(np.uint8)
            if fdp.ConsumeBool():
                bits = bits[::-1].copy()
        rows.append(bits.astype(np.uint8))
    return n, ra, rb, np.array(rows[:na]), np.array(rows[na:]), a2d, b2d


def one(data):
    n, ra, rb, A, B, a2d, b2d = decode(data)
    COUNT['n'] += 1
    want = c03.ref_table(A, B)
    sa = '2d' if (len(A) > 1 or a2d) else '1d'
    sb = '2d' if (len(B) > 1 or b2d) else '1d'
    got = np.asarray(bpauli.bs_prod(c03.to_rep(A, ra, sa), c03.to_rep(B, rb, sb)))
    ok = got.size == want.size and np.array_equal(
        got.astype(np.float64).ravel(), want.astype(np.float64).ravel())
    if want.any():
        COUNT['nt'] += 1
    if COUNT['n'] % 500 == 0:
        with open(OUT + '.count', 'w') as f:
            json.dump(COUNT, f)
    if not ok:
        with open(OUT, 'w') as f:
            json.dump({'kind': 'raw', 'n': n, 'rep_a': ra, 'rep_b': rb,
                       'A': A.tolist(), 'B': B.tolist(), 'sa': sa, 'sb': sb}, f)
        raise RuntimeError('bs_prod differs from reference')


if __name__ == '__main__':
    atheris.Setup([sys.argv[0]] + sys.argv[2:], one)
    atheris.Fuzz()
