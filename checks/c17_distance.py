"""C17 - the reported distance d is the true code distance."""
import itertools
import math

import numpy as np

from vf import domain, gf2

PROPERTY = 'C17'
LEVEL = 'exploration'
RULE = ('every class x family size with n below the tier bound, undeformed '
        '(+ deformed spot checks: a single-qubit relabelling changes neither '
        'd nor weights). Upper bound: a listed logical of weight d is a '
        'genuine non-trivial logical. Lower bound, exhaustive where the '
        'meet-in-the-middle table C(n, ceil((d-1)/2)) fits the budget: no '
        'X-type or Z-type operator of weight < d commutes with all '
        'generators and lies outside the stabilizer group (for CSS codes a '
        'mixed operator contains such a part of no greater weight; non-CSS '
        'instances enumerate all Paulis). Lower bound, randomised '
        'information-set search elsewhere. Non-trivial = instance with '
        'd >= 3 decided exhaustively; distinct = distinct (class, size)')
ASSUMPTIONS = [
    'for instances beyond the enumeration budget the randomised search can '
    'refute but not confirm (listed under searched_only in the evidence)',
    'all undeformed library codes are CSS (checked at run time; a non-CSS '
    'instance falls back to full Pauli enumeration or is reported as '
    'searched only)',
]
MANIFEST_ENTRY = {
    'technique': 'exhaustive meet-in-the-middle enumeration of all operators '
                 'of weight < d (own GF(2) syndrome / row-space oracle) on '
                 'every small family member and on an elongated family (one '
                 'side up to 10 / 14, the others 2-4) of every class; '
                 'randomised information-set search where the enumeration '
                 'budget ends',
    'level_text': 'For each enumerated instance the claim "no non-trivial '
                  'logical lighter than d exists" is decided by complete '
                  'enumeration below d, and "a logical of weight d exists" by '
                  'verifying the listed representative.',
    'level_note': 'Instances whose enumeration exceeds the budget are only '
                  'searched randomly; integer programming is outside this '
                  'technique family.',
}


def sector_min_search(opts, n, span, d, budget):
    """opts[j]: list of (syndrome_int, vector_int) choices for a non-identity
    action on qubit j (one choice for a single CSS sector, three Paulis for a
    non-CSS code).  Meet-in-the-middle search over all operators of weight
    w < d with zero syndrome that are not in `span`.  Returns
    (witness_vector | None, decided_exhaustively, n_candidates)."""
    cand = 0
    nopt = max(len(o) for o in opts)

    def combos(size):
        for qs in itertools.combinations(range(n), size):
            for pick in itertools.product(*[opts[q] for q in qs]):
                s = v = 0
                for sy, ve in pick:
                    s ^= sy
                    v ^= ve
                yield qs, s, v

    for w in range(1, d):
        a = (w + 1) // 2
        b = w // 2
        if math.comb(n, a) * nopt ** a > budget:
            return None, False, cand
        table = {}
        for qs, s, v in combos(a):
            table.setdefault(s, []).append((qs, v))
            cand += 1
        if b == 0:
            for qs, v in table.get(0, []):
                cand += 1
                if not span.contains(v):
                    return v, True, cand
            continue
        for qs_b, s, v_b in combos(b):
            for qs_a, v_a in table.get(s, ()):
                if a == b and qs_a[0] < qs_b[0]:
                    continue        # each unordered split once is enough
                if set(qs_a) & set(qs_b):
                    continue
                cand += 1
                v = v_a ^ v_b
                if not span.contains(v):
                    return v, True, cand
    return None, True, cand


def isd_search(Hsec_rows, n, span, d, rng, iters):
    """Randomised search for a light element of ker(H) outside span."""
    ker = gf2.kernel(Hsec_rows, n)
    if not ker:
        return None
    best = None
    for _ in range(iters):
        perm = rng.permutation(n)
        # gaussian elimination with pivot columns in the order of perm
        rows = list(ker)
        red = []
        for col in perm:
            col = int(col)
            piv = None
            for i, r in enumerate(rows):
                if (r >> col) & 1:
                    piv = i
                    break
            if piv is None:
                continue
            pr = rows.pop(piv)
            rows = [r ^ pr if (r >> col) & 1 else r for r in rows]
            red = [r ^ pr if (r >> col) & 1 else r for r in red]
            red.append(pr)
            if not rows:
                break
        cands = list(red)
        for i in range(min(len(red), 40)):
            for j in range(i + 1, min(len(red), 40)):
                cands.append(red[i] ^ red[j])
        for v in cands:
            w = v.bit_count()
            if 0 < w < d and not span.contains(v):
                if best is None or w < len(best):
                    best = [j for j in range(n) if (v >> j) & 1]
    return best


def deformed_d_case(case):
    """A single-qubit relabelling changes no weight: every deformation of a
    code must report the distance of the undeformed code (which the
    exhaustive cases decide)."""
    fails = []
    cls, size = case['cls'], tuple(case['size'])
    und = domain.build_code(cls, size)
    d0 = int(und.d)
    n = 0
    for name, kw in domain.deformations(cls):
        if name is None:
            continue
        dfm = domain.build_code(cls, size, name, kw)
        n += 1
        if int(dfm.d) != d0:
            fails.append({'relation': 'deformation_preserves_reported_d',
                          'detail': f'{cls}{size}: d={int(dfm.d)} after deform({name}, {kw}), '
                                    f'{d0} before (a relabelling of single qubits cannot change '
                                    f'the distance)', 'sig': {'class': cls}})
            break
        # own weight of every listed logical: number of qubits in the support
        L = np.vstack([gf2.to_dense(dfm.logicals_x), gf2.to_dense(dfm.logicals_z)])
        nn = dfm.n
        w = int(((L[:, :nn] + L[:, nn:]) > 0).sum(axis=1).min())
        if w != int(dfm.d):
            fails.append({'relation': 'd_is_min_listed_weight',
                          'detail': f'{cls}{size} {name} {kw}: d={int(dfm.d)}, lightest listed '
                                    f'logical acts on {w} qubits', 'sig': {'class': cls}})
            break
    return {'fails': fails, 'nontrivial': len(set(size)) > 1 and n > 0,
            'labels': ['deformed-d', cls], 'evals': max(1, n)}


def eval_case(case):
    if case.get('kind') == 'deformed_d':
        return deformed_d_case(case)
    fails = []

    def fail(rel, detail):
        fails.append({'relation': rel, 'detail': detail})

    cls, size = case['cls'], tuple(case['size'])
    code = domain.build_from_case(case)
    n = code.n
    d = int(code.d)
    H = gf2.to_dense(code.stabilizer_matrix)
    Lx = gf2.to_dense(code.logicals_x)
    Lz = gf2.to_dense(code.logicals_z)
    hspan = gf2.Span(gf2.rows_to_ints(H))
    # upper bound: some listed logical has weight exactly d and is genuine
    L = np.vstack([Lx, Lz])
    wts = ((L[:, :n] + L[:, n:]) > 0).sum(axis=1)
    if int(wts.min()) != d:
        fail('d_is_min_listed_weight', f'd={d} but lightest listed logical has weight {int(wts.min())}')
    rep = L[int(np.argmin(wts))]
    if gf2.symp_matrix(H, rep.reshape(1, -1)).any():
        fail('representative_commutes', 'the weight-d logical anticommutes with a generator')
    if hspan.contains(gf2.row_to_int(rep)):
        fail('representative_nontrivial', 'the weight-d logical is a stabilizer')

    # the value written to result files (the recorded inputs of a simulation
    # on this code) and reported with the results is that same d
    from panqec.error_models import PauliErrorModel
    from panqec.decoders import BeliefPropagationOSDDecoder
    from panqec.simulation import DirectSimulation
    em_ = PauliErrorModel(1 / 3, 1 / 3, 1 / 3)
    sim_ = DirectSimulation(code, em_, BeliefPropagationOSDDecoder(code, em_, 0.1), 0.1, verbose=False)
    rec = sim_.get_results_to_save()['inputs']['code']
    if int(rec['d']) != d or int(rec['n']) != n or int(rec['k']) != Lx.shape[0]:
        fail('recorded_d_is_reported_d',
             f"a simulation on this code records n, k, d = {rec['n']}, {rec['k']}, {rec['d']}; "
             f'the code reports {n}, {Lx.shape[0]}, {d}')
    got_ = sim_.get_results()
    if 'd' in got_ and int(got_['d']) != d:
        fail('recorded_d_is_reported_d', f"get_results()['d'] = {got_['d']}, code.d = {d}")

    css = not bool(((H[:, :n].sum(axis=1) > 0) & (H[:, n:].sum(axis=1) > 0)).any())
    budget = case['budget']
    decided = True
    cand = 0
    witness = None
    rng = np.random.default_rng(case.get('rseed', 0))
    def describe(v, kind):
        if kind == 'P':
            return [[q, 'IXZY'[(v >> q & 1) + 2 * (v >> (n + q) & 1)]]
                    for q in range(n) if (v >> q & 1) or (v >> (n + q) & 1)]
        return [q for q in range(n) if v >> q & 1]

    if css:
        xrows = H[H[:, :n].sum(axis=1) > 0][:, :n]
        zrows = H[H[:, n:].sum(axis=1) > 0][:, n:]
        for kind, check_rows, same_rows in (('X', zrows, xrows), ('Z', xrows, zrows)):
            # an X-type operator must commute with Z generators and lie
            # outside the span of X generators
            cols = [0] * n
            for i, r in enumerate(check_rows):
                for j in np.nonzero(r)[0]:
                    cols[int(j)] |= 1 << i
            opts = [[(cols[q], 1 << q)] for q in range(n)]
            span = gf2.Span(gf2.rows_to_ints(same_rows)) if len(same_rows) else gf2.Span()
            v, dec, c = sector_min_search(opts, n, span, d, budget)
            cand += c
            w = describe(v, kind) if v is not None else None
            if v is None and not dec:
                decided = False
                w = isd_search(gf2.rows_to_ints(check_rows) if len(check_rows) else [],
                               n, span, d, rng, case.get('isd_iters', 30))
            if w is not None:
                witness = (kind, w)
                break
    else:
        hints = gf2.rows_to_ints(H)
        sx = [0] * n
        sz = [0] * n
        for i, h in enumerate(hints):
            for q in range(n):
                if h >> (n + q) & 1:      # generator has Z on q: X_q anticommutes
                    sx[q] |= 1 << i
                if h >> q & 1:            # generator has X on q: Z_q anticommutes
                    sz[q] |= 1 << i
        opts = [[(sx[q], 1 << q), (sz[q], 1 << (n + q)),
                 (sx[q] ^ sz[q], (1 << q) | (1 << (n + q)))] for q in range(n)]
        v, dec, c = sector_min_search(opts, n, hspan, d, budget)
        cand += c
        decided = dec
        if v is not None:
            witness = ('P', describe(v, 'P'))
    if witness is not None:
        fail('no_lighter_logical',
             f'reported d={d} but the {witness[0]}-type operator on qubits '
             f'{witness[1]} (weight {len(witness[1])}) commutes with every '
             f'generator and is not a stabilizer')
    for f in fails:
        f['sig'] = {'class': cls}
        f['detail'] = f'{cls}{size} {case.get("deformation")}: ' + f['detail']
    labels = [cls, f'd={d}', 'exhaustive' if decided else 'searched_only',
              'css' if css else 'noncss']
    if case.get('elongated'):
        labels.append('elongated')
    return {'fails': fails, 'nontrivial': decided and d >= 3, 'labels': labels,
            'evals': max(1, cand),
            'aux': {'decided': decided, 'id': f'{cls}{size}', 'd': d, 'n': n}}


def case_sig(case):
    from checks.c01_valid_code import case_sig as s
    return s(case)


def cases_for(max_n, budget, isd_iters, seed, max_L, max_L_2d, max_color, elongated):
    out = []
    for i, c in enumerate(domain.all_code_cases(
            max_L, max_L_2d, max_color, max_n=max_n, with_deformations=False, thin=True)):
        if c['cls'] == 'Color666ToricCode' and c['size'][0] != c['size'][1]:
            continue
        if case_sig(c).get('slab_hole'):
            # C01 known finding: these HollowRhombicCode sizes have unlisted
            # logical qubits (weight-4 half cubes), so "the" distance of the
            # listed code is not defined; excluded by construction
            continue
        out.append(dict(c, budget=budget, isd_iters=isd_iters,
                        rseed=seed * 31 + i))
    # elongated lattices: one side far longer than the others, where the
    # lightest logical is not the one along the short side (a ring through a
    # cavity, a membrane lighter than a string)
    long_top, cross = elongated
    seen = {(c['cls'], tuple(c['size'])) for c in out}
    j = len(out)
    for cls in domain.CODE_CLASSES:
        dim = domain.DIM[cls]
        if cls in domain.COLOR_2D:
            continue
        shapes = set()
        for L in range(2, long_top + 1):
            for rest in itertools.product(cross, repeat=dim - 1):
                shapes.update(itertools.permutations((L,) + rest))
        for size in sorted(shapes):
            if (cls, size) in seen or not domain.size_ok(cls, size, thin=True):
                continue
            if domain.n_estimate(cls, size) > max_n:
                continue
            c = domain.code_case(cls, size)
            if case_sig(c).get('slab_hole'):
                continue
            j += 1
            out.append(dict(c, budget=budget, isd_iters=isd_iters, rseed=seed * 31 + j,
                            elongated=True))
    # every deformation x axis of every instance reports the same d
    for c in list(out):
        if domain.get_class(c['cls']).deformation_names:
            out.append({'kind': 'deformed_d', 'cls': c['cls'], 'size': c['size']})
    # deformed spot checks (non-CSS path, tiny n)
    for cls, size, name in (('RotatedPlanar2DCode', (3, 3), 'XZZX'),
                            ('Planar2DCode', (2, 3), 'XY'),
                            ('Toric2DCode', (2, 3), 'XZZX')):
        out.append(dict(domain.code_case(cls, size, name, {}), budget=budget,
                        isd_iters=isd_iters, rseed=seed))
    return out


def run(ctx):
    if ctx.tier == 'quick':
        cases = cases_for(170, 1500000, 20, ctx.seed, 5, 8, 3, (10, (2, 3)))
    else:
        cases = cases_for(280, 6000000, 200, ctx.seed, 6, 12, 4, (13, (2, 3, 4)))
    ctx.note('instances', len(cases))
    ctx.note('excluded_from_domain',
             'Color666ToricCode with L_x != L_y (logicals cannot be built) and HollowRhombicCode '
             'slab-hole sizes (rank deficient): both C01 known findings')
    ctx.run_cases(cases, chunk=1)
    ctx.aux = [a for a in ctx.aux if 'decided' in a]
    ctx.note('decided_exhaustively', sorted(
        f"{a['id']} d={a['d']} n={a['n']}" for a in ctx.aux if a['decided']))
    ctx.note('searched_only', sorted(
        f"{a['id']} d={a['d']} n={a['n']}" for a in ctx.aux if not a['decided']))
