"""C03 - Pauli representations are lossless and the symplectic product is
exact."""
import itertools

import numpy as np
from hypothesis import strategies as st
from scipy.sparse import csr_matrix

from vf import domain, gf2

PROPERTY = 'C03'
LEVEL = 'exploration'
RULE = ('(a) exhaustive: all 4^n x 4^n ordered pairs of Paulis for n <= 3 in '
        'every ordered pair of representations {list, ndarray uint8/int8/'
        'int32/int64/uint64, csr} and every shape combination (1-D, (1,2n), '
        'stacked 2-D); (b) Hypothesis: stacks r_a x r_b <= 6x6 with n <= 640 '
        'and densities {0, sparse, 1/2, all-ones, all-Y} so that overlaps '
        'exceed 255, mixed sparse/dense; converter round trips; linearity of '
        'measure_syndrome on library codes. Non-trivial = pair with overlap '
        'weight >= 2 containing a Y (overflow class: overlap >= 256); '
        'distinct = distinct case dict')
ASSUMPTIONS = [
    'only documented argument kinds are generated: binary entries, even '
    'length, integer dtypes; bool arrays and non-binary entries are outside '
    'the contract',
    'result shape conventions beyond "2-D x 1-D -> length = rows" are not '
    'asserted (values are compared after ravel)',
]
MANIFEST_ENTRY = {
    'technique': 'exhaustive enumeration of all Pauli pairs on n <= 3 in every '
                 'representation pair + Hypothesis stacks up to n = 640; '
                 'reference = Python-int popcount symplectic form; round-trip '
                 'oracles for converters (thorough adds an atheris '
                 'coverage-guided target with the same oracle)',
    'level_text': 'The product table is compared entry by entry with an '
                  'independent bit-parallel implementation for every '
                  'representation/shape pair on the full n <= 3 domain and on '
                  'generated large stacks including uint8-overflow overlaps; '
                  'algebraic laws and converter inverses checked directly.',
    'level_note': 'Large n is sampled; only documented argument kinds are '
                  'generated.',
}

REPS = ['list', 'u8', 'i8', 'i32', 'i64', 'u64', 'csr', 'csrz', 'csru']
DT = {'u8': np.uint8, 'i8': np.int8, 'i32': np.int32, 'i64': np.int64,
      'u64': np.uint64}


def csr_with_stored_zeros(M):
    """The csr a library-style mod-2 sum leaves behind: (M ^ N) + N with
    `data %= 2` stores an explicit 0 wherever two ones cancelled."""
    i, j = np.indices(M.shape)
    N = ((i * 7 + j * 3) % 4 == 0).astype(np.uint8)
    out = csr_matrix((M ^ N).astype(np.uint8)) + csr_matrix(N)
    out.data %= 2
    assert np.array_equal(out.toarray(), M)
    return out


def csr_unsorted(M):
    """Same matrix, column indices of every row stored in reverse order (what
    a sparse matrix product returns)."""
    c = csr_matrix(M.astype(np.uint8))
    ind = c.indices.copy()
    dat = c.data.copy()
    for r in range(c.shape[0]):
        lo, hi = c.indptr[r], c.indptr[r + 1]
        ind[lo:hi] = ind[lo:hi][::-1]
        dat[lo:hi] = dat[lo:hi][::-1]
    out = csr_matrix((dat, ind, c.indptr.copy()), shape=c.shape)
    return out


def to_rep(M, rep, shape):
    """M: 2-D uint8 array (rows = Paulis). shape: '1d' | 'row' | '2d'."""
    if rep == 'csrz':
        return csr_with_stored_zeros(np.asarray(M, dtype=np.uint8))
    if rep == 'csru':
        return csr_unsorted(np.asarray(M, dtype=np.uint8))
    if shape == '1d':
        assert M.shape[0] == 1
        v = M[0]
        if rep == 'list':
            return [int(x) for x in v]
        if rep == 'csr':
            return csr_matrix(M.astype(np.uint8))      # no 1-D csr exists
        return v.astype(DT[rep])
    if rep == 'list':
        return [[int(x) for x in r] for r in M]
    if rep == 'csr':
        return csr_matrix(M.astype(np.uint8))
    return M.astype(DT[rep])


def ref_table(A, B):
    n = A.shape[1] // 2
    a = [gf2.row_to_int(r) for r in A]
    b = [gf2.row_to_int(r) for r in B]
    return np.array([[gf2.symp_int(x, y, n) for y in b] for x in a], dtype=np.int64)


def all_paulis(n):
    M = np.zeros((4 ** n, 2 * n), dtype=np.uint8)
    for idx in range(4 ** n):
        for q in range(n):
            d = (idx >> (2 * q)) & 3
            M[idx, q] = d & 1
            M[idx, n + q] = d >> 1
    return M


def compare(got, want, fail, what):
    got = np.asarray(got)
    if got.size != want.size:
        fail('prod_size', f'{what}: result has {got.size} entries, expected {want.size}')
        return False
    g = got.astype(np.float64).ravel() if got.shape != want.shape else got.astype(np.float64)
    w = want.ravel() if got.shape != want.shape else want
    if not np.array_equal(g, w.astype(np.float64)):
        bad = np.argwhere(g != w)
        fail('prod_value', f'{what}: {len(bad)} wrong entries, first at {bad[0].tolist()}: '
             f'got {g[tuple(bad[0])]} want {w[tuple(bad[0])]}')
        return False
    return True


def exhaustive_case(case, fail):
    from panqec.bpauli import bs_prod
    n, ra, rb = case['n'], case['rep_a'], case['rep_b']
    P = all_paulis(n)
    want = ref_table(P, P)
    evals = 0
    # stacked x stacked
    compare(bs_prod(to_rep(P, ra, '2d'), to_rep(P, rb, '2d')), want, fail,
            f'n={n} {ra}[2d] x {rb}[2d]')
    evals += want.size
    same = to_rep(P, ra, '2d')
    compare(bs_prod(same, same), want, fail, f'n={n} same object twice: {ra}[2d]')
    for i in range(len(P)):
        one = P[i:i + 1]
        # 2-D x 1-D -> length = rows
        got = bs_prod(to_rep(P, ra, '2d'), to_rep(one, rb, '1d'))
        if not rb.startswith('csr') and np.asarray(got).shape != (len(P),):
            fail('prod_shape_2d_1d', f'n={n} {ra}[2d] x {rb}[1d]: shape {np.asarray(got).shape}')
        compare(got, want[:, i], fail, f'n={n} {ra}[2d] x {rb}[1d] b={i}')
        got = bs_prod(to_rep(one, ra, '1d'), to_rep(P, rb, '2d'))
        if not ra.startswith('csr') and np.asarray(got).shape != (len(P),):
            fail('prod_shape_1d_2d', f'n={n} {ra}[1d] x {rb}[2d]: shape {np.asarray(got).shape}')
        compare(got, want[i, :], fail, f'n={n} {ra}[1d] x {rb}[2d] a={i}')
        compare(bs_prod(to_rep(one, ra, 'row'), to_rep(P, rb, '2d')), want[i, :], fail,
                f'n={n} {ra}[row] x {rb}[2d] a={i}')
        evals += 3 * len(P)
        if fail.count > 4:
            break
    # single x single, all ordered pairs
    if n <= 2 or (ra, rb) in (('u8', 'u8'), ('list', 'list'), ('csr', 'u8'), ('u8', 'csr'),
                              ('csr', 'csr'), ('i64', 'u64'), ('csrz', 'csrz'), ('csrz', 'csru'),
                              ('csru', 'csr'), ('u8', 'csrz')):
        for i, j in itertools.product(range(len(P)), repeat=2):
            got = bs_prod(to_rep(P[i:i + 1], ra, '1d'), to_rep(P[j:j + 1], rb, '1d'))
            if np.asarray(got).size != 1 or int(np.asarray(got).ravel()[0]) != want[i, j]:
                fail('prod_value', f'n={n} {ra}[1d] x {rb}[1d] a={i} b={j}: got {got}')
                break
            evals += 1
    return evals, True


def make_rows(spec, n):
    rows = []
    for kind, seed in spec:
        rng = np.random.default_rng(seed)
        if kind == 'zero':
            r = np.zeros(2 * n, dtype=np.uint8)
        elif kind == 'sparse':
            r = (rng.random(2 * n) < 3.0 / (2 * n)).astype(np.uint8)
        elif kind == 'half':
            r = (rng.random(2 * n) < 0.5).astype(np.uint8)
        elif kind == 'ones':
            r = np.ones(2 * n, dtype=np.uint8)
        elif kind == 'allX':
            r = np.concatenate([np.ones(n), np.zeros(n)]).astype(np.uint8)
        elif kind == 'allZ':
            r = np.concatenate([np.zeros(n), np.ones(n)]).astype(np.uint8)
        else:   # dense
            r = (rng.random(2 * n) < 0.9).astype(np.uint8)
        rows.append(r)
    return np.array(rows, dtype=np.uint8)


def stack_case(case, fail):
    from panqec.bpauli import bs_prod
    n = case['n']
    A = make_rows(case['a'], n)
    B = make_rows(case['b'], n)
    ra, rb = case['rep_a'], case['rep_b']
    want = ref_table(A, B)
    sa = '2d' if (len(A) > 1 or case['a2d']) else '1d'
    sb = '2d' if (len(B) > 1 or case['b2d']) else '1d'
    compare(bs_prod(to_rep(A, ra, sa), to_rep(B, rb, sb)), want, fail,
            f'n={n} {ra}[{sa}]{A.shape} x {rb}[{sb}]{B.shape}')
    # a stack against itself, handed over as one and the same object (how a
    # parity-check matrix is tested for commuting rows: bs_prod(H, H))
    for M_, r_, sh_ in ((A, ra, sa), (B, rb, sb)):
        obj = to_rep(M_, r_, sh_)
        compare(bs_prod(obj, obj), ref_table(M_, M_), fail,
                f'n={n} same object twice: {r_}[{sh_}]{M_.shape}')
    # symmetry, alternation, bilinearity through the library
    compare(bs_prod(to_rep(B, rb, sb), to_rep(A, ra, sa)), want.T, fail, 'symmetry')
    AA = np.asarray(bs_prod(to_rep(A, ra, '2d'), to_rep(A, rb, '2d')))
    if AA.size == len(A) ** 2 and np.diag(AA.reshape(len(A), len(A)).astype(float)).any():
        fail('prod_alternating', f'<a,a> != 0 for n={n} {ra}/{rb}')
    if len(A) >= 2 and ra != 'list':
        s = ((A[0].astype(int) + A[1]) % 2).astype(np.uint8).reshape(1, -1)
        lhs = np.asarray(bs_prod(to_rep(s, ra, '1d'), to_rep(B, rb, '2d'))).astype(float).ravel()
        r0 = np.asarray(bs_prod(to_rep(A[0:1], ra, '1d'), to_rep(B, rb, '2d'))).astype(float).ravel()
        r1 = np.asarray(bs_prod(to_rep(A[1:2], ra, '1d'), to_rep(B, rb, '2d'))).astype(float).ravel()
        if not np.array_equal(lhs, (r0 + r1) % 2):
            fail('prod_bilinear', f'n={n} {ra}/{rb}')
    ov = 0
    hasy = False
    for a in A:
        for b in B:
            ov = max(ov, int((a[:n] & b[n:]).sum()), int((a[n:] & b[:n]).sum()))
        hasy = hasy or bool((a[:n] & a[n:]).any())
    return A.shape[0] * B.shape[0], (ov >= 2 and hasy), ov


def convert_case(case, fail):
    from panqec import bpauli, bsparse
    s = case['pauli']
    n = len(s)
    x, z = gf2.pauli_to_xz(s)
    want = np.array([(x >> i) & 1 for i in range(n)] + [(z >> i) & 1 for i in range(n)])
    v1 = bpauli.pauli_string_to_bvector(s) if n else None
    v2 = bpauli.pauli_to_bsf(s)
    if n:
        if not np.array_equal(v1, want):
            fail('pauli_string_to_bvector', s)
        if not np.array_equal(v2, want):
            fail('pauli_to_bsf', s)
        if bpauli.bvector_to_pauli_string(np.asarray(v1)) != s:
            fail('bvector_to_pauli_string', s)
        w8 = want.astype(np.uint8)
        if bpauli.bsf_to_pauli(w8) != s:
            fail('bsf_to_pauli_dense', s)
        if bpauli.bsf_to_pauli(np.vstack([w8, w8])) != [s, s]:
            fail('bsf_to_pauli_dense_2d', s)
        # ... for every integer width, incl. what the library's own
        # converters hand out, alone and stacked with a different row
        other = np.roll(want, 1)
        s_other = ''.join('IXZY'[int(other[i]) + 2 * int(other[n + i])] for i in range(n))
        for dt in (np.int8, np.uint16, np.int32, np.int64, np.uint64, np.asarray(v2).dtype):
            wd = want.astype(dt)
            if bpauli.bsf_to_pauli(wd) != s:
                fail('bsf_to_pauli_dense', f'{s} as {np.dtype(dt).name}')
            if bpauli.bsf_to_pauli(np.vstack([wd, other.astype(dt)])) != [s, s_other]:
                fail('bsf_to_pauli_dense_2d', f'{s} stacked with {s_other} as {np.dtype(dt).name}')
        if bpauli.bsf_to_pauli(np.vstack([v2, v2])) != [s, s]:
            fail('bsf_to_pauli_dense_2d', f'{s}: stack of pauli_to_bsf outputs')
        if want.any() and bpauli.bsf_to_pauli(csr_matrix(w8.reshape(1, -1))) != [s]:
            fail('bsf_to_pauli_sparse', s)
        # a sparse row is the vector it stores, whatever the order of its
        # stored entries (a sparse product returns unsorted column indices)
        wt = sum(1 for c in s if c != 'I')
        if want.any():
            un = csr_unsorted(w8.reshape(1, -1))
            if bpauli.bsf_to_pauli(un) != [s]:
                fail('bsf_to_pauli_sparse_unsorted', s)
            if int(bpauli.bsf_wt(un)) != wt:
                fail('bsf_wt_sparse_unsorted', s)
            mask = (np.arange(2 * n) * 2654435761 + case['rseed']) % 3 == 0
            parts = csr_matrix(np.vstack([w8 * mask, w8 * ~mask]).astype(np.uint8))
            prod = csr_matrix(np.ones((1, 2), dtype=np.uint8)) @ parts
            if bpauli.bsf_to_pauli(prod) != [s]:
                fail('bsf_to_pauli_sparse_product', s)
            if int(bpauli.bsf_wt(prod)) != wt:
                fail('bsf_wt_sparse_product', s)
        if int(bpauli.bsf_wt(w8)) != wt:
            fail('bsf_wt_dense', f'{s}: {bpauli.bsf_wt(w8)} != {wt}')
        if int(bpauli.bsf_wt(csr_matrix(w8.reshape(1, -1)))) != wt:
            fail('bsf_wt_sparse', s)
        # integers
        i = bpauli.bvector_to_int(w8)
        if i != int(''.join(str(int(b)) for b in want), 2):
            fail('bvector_to_int', s)
        for dt in (np.int64, np.uint64, np.int32, np.uint):
            if bpauli.bvector_to_int(want.astype(dt)) != i:
                fail('bvector_to_int_dtype', f'{s} as {np.dtype(dt).name}')
                break
        if bpauli.bvector_to_int(np.asarray(v1)) != i:
            fail('bvector_to_int_of_converter_output', s)
        if not np.array_equal(bpauli.int_to_bvector(i, n), want):
            fail('int_to_bvector', s)
        ints = bpauli.bvectors_to_ints([w8, w8[::-1].copy()])
        back = bpauli.ints_to_bvectors(ints, n)
        if not (np.array_equal(back[0], want) and np.array_equal(back[1], want[::-1])):
            fail('ints_round_trip', s)
        # sparse <-> dense
        sp = bsparse.from_array(w8.reshape(1, -1))
        if not np.array_equal(bsparse.to_array(sp), w8.reshape(1, -1)):
            fail('bsparse_round_trip', s)
        sp2 = bsparse.from_array([[int(b) for b in want]])
        if not np.array_equal(bsparse.to_array(sp2), w8.reshape(1, -1)):
            fail('bsparse_from_list', s)
        # deformation = swap x/z on the index set, an involution preserving <.,.>
        rng = np.random.default_rng(case['rseed'])
        idx = rng.random(n) < 0.5
        dv = bpauli.apply_deformation(idx, w8)
        wantd = w8.copy()
        wantd[:n][idx], wantd[n:][idx] = w8[n:][idx], w8[:n][idx]
        if not np.array_equal(dv, wantd):
            fail('apply_deformation', s)
        if not np.array_equal(bpauli.apply_deformation(idx, dv), w8):
            fail('apply_deformation_involution', s)
        other = (rng.random(2 * n) < 0.5).astype(np.uint8)
        do = bpauli.apply_deformation(idx, other)
        if int(np.asarray(bpauli.bs_prod(dv, do)).ravel()[0]) != \
                gf2.symp_int(gf2.row_to_int(w8), gf2.row_to_int(other), n):
            fail('deformation_preserves_product', s)
        d2 = bpauli.apply_deformation(idx, np.vstack([w8, other]))
        if not (np.array_equal(d2[0], wantd) and np.array_equal(d2[1], do)):
            fail('apply_deformation_2d', s)
    # sparse-row helpers agree with the dense picture
    if n:
        rng2 = np.random.default_rng(case['rseed'] + 2)
        w8 = want.astype(np.uint8)
        row = bsparse.from_array(w8.reshape(1, -1))
        a, b = bsparse.hsplit(row)
        if not (np.array_equal(bsparse.to_array(a), w8[:n].reshape(1, -1))
                and np.array_equal(bsparse.to_array(b), w8[n:].reshape(1, -1))):
            fail('bsparse_hsplit_row', s)
        M2 = np.vstack([w8, (rng2.random(2 * n) < 0.5).astype(np.uint8)])
        a2, b2 = bsparse.hsplit(bsparse.from_array(M2))
        if not (np.array_equal(bsparse.to_array(a2), M2[:, :n])
                and np.array_equal(bsparse.to_array(b2), M2[:, n:])):
            fail('bsparse_hsplit_matrix', s)
        other = (rng2.random(2 * n) < 0.5).astype(np.uint8)
        want_dot = int(np.sum(w8.astype(int) * other.astype(int)) % 2)
        for A_, B_ in ((row, bsparse.from_array(other.reshape(1, -1))),
                       (w8.reshape(1, -1), bsparse.from_array(other.reshape(1, -1))),
                       (row, other.reshape(1, -1))):
            if bsparse.dot(A_, B_) != want_dot:
                fail('bsparse_dot', s)
                break
        r2 = bsparse.from_array(w8.reshape(1, -1))
        idx = int(rng2.integers(0, 2 * n))
        bsparse.insert_mod2(idx, r2)
        flipped = w8.copy()
        flipped[idx] ^= 1
        if not np.array_equal(bsparse.to_array(r2).ravel(), flipped):
            fail('bsparse_insert_mod2', f'{s} index {idx}')
        if bool(bsparse.is_one(idx, r2)) != bool(flipped[idx]):
            fail('bsparse_is_one', f'{s} index {idx}')
        if not bsparse.equal(bsparse.from_array(w8.reshape(1, -1)), row) or \
                bsparse.equal(r2, row):
            fail('bsparse_equal', s)
        if not bsparse.equal(bsparse.zero_row(2 * n), 0) or bsparse.zero_matrix((3, 2 * n)).nnz:
            fail('bsparse_zero', s)
        st_ = bsparse.vstack([row, r2])
        if not np.array_equal(bsparse.to_array(st_), np.vstack([w8, flipped])):
            fail('bsparse_vstack', s)
        hs = bsparse.hstack([row, r2])
        if not np.array_equal(bsparse.to_array(hs).ravel(), np.concatenate([w8, flipped])):
            fail('bsparse_hstack', s)
    # rank
    rng = np.random.default_rng(case['rseed'] + 1)
    r, c = case['rank_shape']
    M = (rng.random((r, c)) < case['rank_density']).astype(np.uint8)
    if r >= 2:
        M[-1] = (M[0].astype(int) + M[1]) % 2
    want_rank = gf2.rank(gf2.rows_to_ints(M))
    if bpauli.brank(M) != want_rank:
        fail('brank_dense', f'{bpauli.brank(M)} != {want_rank}')
    if bpauli.brank(csr_matrix(M)) != want_rank:
        fail('brank_sparse', f'{bpauli.brank(csr_matrix(M))} != {want_rank}')
    # weight of a stack ("vector or matrix", dense or csr): total over its rows
    if c % 2 == 0 and M.any():
        h = c // 2
        want_wt = int(((M[:, :h] | M[:, h:]) > 0).sum())
        got_d, got_s = int(bpauli.bsf_wt(M)), int(bpauli.bsf_wt(csr_matrix(M)))
        if got_d != want_wt:
            fail('bsf_wt_stack_dense', f'{r}x{c} stack: {got_d} != {want_wt}')
        if got_s != want_wt:
            fail('bsf_wt_stack_sparse', f'{r}x{c} stack: sparse {got_s}, dense {got_d}, '
                 f'sum of row weights {want_wt}')
    return 1, ('Y' in s and n >= 2)


def linear_case(case, fail):
    code = domain.build_from_case(case)
    n = code.n
    rng = np.random.default_rng(case['rseed'])
    H = gf2.to_dense(code.stabilizer_matrix)
    nt = False
    for _ in range(8):
        p = rng.choice([0.02, 0.2, 0.5, 1.0])
        e1 = (rng.random(2 * n) < p).astype(np.uint8)
        e2 = (rng.random(2 * n) < p).astype(np.uint8)
        s1 = np.asarray(code.measure_syndrome(e1)).ravel().astype(int)
        s2 = np.asarray(code.measure_syndrome(e2)).ravel().astype(int)
        s12 = np.asarray(code.measure_syndrome((e1 + e2) % 2)).ravel().astype(int)
        if not np.array_equal(s12, (s1 + s2) % 2):
            fail('syndrome_linear', f'{case["cls"]}{case["size"]}')
            break
        want = gf2.symp_matrix(H, e1.reshape(1, -1)).ravel()
        if not np.array_equal(s1, want):
            fail('syndrome_value', f'{case["cls"]}{case["size"]}: measure_syndrome '
                 f'differs from own H Omega e on {int((s1 != want).sum())} rows')
            break
        if s1.shape != (H.shape[0],):
            fail('syndrome_shape', f'{s1.shape}')
        # other accepted dtypes
        for dt in (np.int64, np.uint64, np.int8):
            sd = np.asarray(code.measure_syndrome(e1.astype(dt))).ravel().astype(float)
            if not np.array_equal(sd, want.astype(float)):
                fail('syndrome_dtype', f'{case["cls"]}{case["size"]} dtype {dt.__name__}')
                break
        nt = nt or bool(s1.any())
    return 8, nt


class _Fail:
    def __init__(self):
        self.items = []
        self.count = 0

    def __call__(self, rel, detail):
        self.count += 1
        if len(self.items) < 6:
            self.items.append({'relation': rel, 'detail': detail})


def eval_case(case):
    fail = _Fail()
    kind = case['kind']
    labels = [kind]
    if kind == 'exh':
        evals, nt = exhaustive_case(case, fail)
        labels.append(f"exh:{case['rep_a']}x{case['rep_b']}")
    elif kind == 'stack':
        evals, nt, ov = stack_case(case, fail)
        labels.append('overlap>=256' if ov >= 256 else 'overlap<256')
        labels.append('sparse-arg' if any(r.startswith('csr') for r in (case['rep_a'], case['rep_b'])) else 'dense-args')
        if 'csrz' in (case['rep_a'], case['rep_b']):
            labels.append('csr-with-stored-zeros')
    elif kind == 'convert':
        evals, nt = convert_case(case, fail)
    elif kind == 'raw':
        from panqec.bpauli import bs_prod
        A = np.array(case['A'], dtype=np.uint8)
        B = np.array(case['B'], dtype=np.uint8)
        compare(bs_prod(to_rep(A, case['rep_a'], case['sa']),
                        to_rep(B, case['rep_b'], case['sb'])),
                ref_table(A, B), fail, f"raw {case['rep_a']} x {case['rep_b']}")
        evals, nt = 1, True
    else:
        evals, nt = linear_case(case, fail)
    for f in fail.items:
        f['sig'] = {'bucket': kind}
    return {'fails': fail.items, 'nontrivial': nt, 'labels': labels, 'evals': evals}


ROWKINDS = ['zero', 'sparse', 'half', 'ones', 'allX', 'allZ', 'dense']


@st.composite
def stack_cases(draw):
    n = draw(st.one_of(st.integers(1, 40), st.integers(250, 300), st.integers(500, 640),
                       st.sampled_from([127, 128, 255, 256, 257, 511, 512, 513])))
    row = st.tuples(st.sampled_from(ROWKINDS), st.integers(0, 2**20))
    a = draw(st.lists(row, min_size=1, max_size=6))
    b = draw(st.lists(row, min_size=1, max_size=6))
    return {'kind': 'stack', 'n': n, 'a': [list(r) for r in a], 'b': [list(r) for r in b],
            'rep_a': draw(st.sampled_from(REPS)), 'rep_b': draw(st.sampled_from(REPS)),
            'a2d': draw(st.booleans()), 'b2d': draw(st.booleans())}


@st.composite
def convert_cases(draw):
    s = draw(st.one_of(st.text(alphabet='IXYZ', min_size=1, max_size=40),
                       st.text(alphabet='IXYZ', min_size=41, max_size=330),
                       st.integers(1, 330).map(lambda k: 'Y' * k),
                       st.integers(1, 330).map(lambda k: 'I' * (k - 1) + 'Z')))
    return {'kind': 'convert', 'pauli': s, 'rseed': draw(st.integers(0, 2**30)),
            'rank_shape': [draw(st.integers(1, 12)), draw(st.integers(1, 70))],
            'rank_density': draw(st.sampled_from([0.1, 0.5, 0.9]))}


def run(ctx):
    quick = ctx.tier == 'quick'
    exh = [{'kind': 'exh', 'n': n, 'rep_a': a, 'rep_b': b}
           for n in ((1, 2) if quick else (1, 2, 3)) for a in REPS for b in REPS]
    if quick:
        exh += [{'kind': 'exh', 'n': 3, 'rep_a': a, 'rep_b': b}
                for a, b in [('u8', 'u8'), ('list', 'csr'), ('csr', 'csr'),
                             ('i8', 'u64'), ('i64', 'i32'), ('csr', 'u8'),
                             ('u64', 'list'), ('csrz', 'csrz'), ('csru', 'csrz')]]
    ctx.exhaustive = True
    ctx.run_cases(exh, chunk=1)
    ctx.run_hypothesis('stack_cases', 3000 if quick else 300000)
    ctx.run_hypothesis('convert_cases', 1500 if quick else 100000)
    lin = [dict(c, kind='linear', rseed=ctx.seed * 17 + i) for i, c in enumerate(
        domain.all_code_cases(3 if quick else 4, 4 if quick else 7, 2, max_n=700))
        if not (c['cls'] == 'Color666ToricCode' and c['size'][0] != c['size'][1])]
    ctx.run_cases(lin, chunk=4)
    if not quick:
        from checks import fuzz_c03
        fuzz_c03.run_atheris(ctx)
