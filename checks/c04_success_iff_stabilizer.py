"""C04 - decoding success is declared iff the residual error is a stabilizer."""
import numpy as np
from hypothesis import strategies as st

from vf import domain, gf2, usercode

PROPERTY = 'C04'
LEVEL = 'exploration'
RULE = ('(a) full 4^n enumeration of residual errors on every library code '
        '(+ every deformation) with n <= 8 and on Hypothesis-generated '
        'Clifford-scrambled [[n,k]] codes with n <= 6; (b) on larger library '
        'codes: all 2n basis vectors, all generators, all logicals and seeded '
        'random products (generators) x (logicals) x (low/high weight error), '
        'single and stacked 2-D inputs. Non-trivial = an in-codespace error '
        'that is not the identity; distinct = distinct (code, error) pair')
ASSUMPTIONS = [
    'the meaning of "logical" relies on C01 for library codes; on exhaustive '
    'domains the counting identities #success = 2^rank(H), #codespace = '
    '2^(2n-rank H) make the check self-contained',
]
MANIFEST_ENTRY = {
    'technique': 'exhaustive 4^n enumeration on small library and generated '
                 'Clifford-scrambled codes, structured products on larger '
                 'codes; oracle = own GF(2) row-space membership and '
                 'symplectic products',
    'level_text': 'For every enumerated residual error the three verdicts '
                  '(in_codespace, is_success, logical_errors) are compared '
                  'with an independent row-space membership test and own '
                  'symplectic products, plus counting identities on '
                  'exhaustive runs; linearity/coset-constancy on larger codes.',
    'level_note': 'Codes with n > 8 are covered by structured and random '
                  'errors only.',
}

SMALL = [
    ('Planar2DCode', (2, 2)), ('Planar2DCode', (2, 3)), ('Planar2DCode', (3, 2)),
    ('RotatedPlanar2DCode', (2, 2)), ('RotatedPlanar2DCode', (2, 3)),
    ('RotatedPlanar2DCode', (3, 2)), ('RotatedPlanar2DCode', (2, 4)),
    ('RotatedPlanar2DCode', (4, 2)), ('Toric2DCode', (2, 2)),
    ('Color666PlanarCode', (1, 1)), ('Color488Code', (1, 1)),
]


def all_errors(n, lo, hi):
    """Errors with index lo..hi-1: base-4 digits = Pauli on each qubit."""
    idx = np.arange(lo, hi, dtype=np.int64)
    E = np.zeros((len(idx), 2 * n), dtype=np.uint8)
    for q in range(n):
        d = (idx >> (2 * q)) & 3      # 0 I, 1 X, 2 Z, 3 Y
        E[:, q] = d & 1
        E[:, n + q] = (d >> 1) & 1
    return E


def oracle(code):
    n = code.n
    H = gf2.to_dense(code.stabilizer_matrix)
    Lx = gf2.to_dense(code.logicals_x)
    Lz = gf2.to_dense(code.logicals_z)
    span = gf2.Span(gf2.rows_to_ints(H))
    return n, H, Lx, Lz, span


def symp_rows(E, M, n):
    """(E Omega M^T) mod 2 with int64."""
    E = E.astype(np.int64)
    M = M.astype(np.int64)
    return (E[:, :n] @ M[:, n:].T + E[:, n:] @ M[:, :n].T) % 2


def check_errors(code, E, fail, individually=True, keyprefix=''):
    n, H, Lx, Lz, span = oracle(code)
    k = Lx.shape[0]
    S = symp_rows(E, H, n)
    in_cs = ~S.any(axis=1)
    eff = np.concatenate([symp_rows(E, Lz, n), symp_rows(E, Lx, n)], axis=1)
    n_success = 0
    nt_keys = []
    # stacked API
    if len(E) > 1:
        got = np.asarray(code.logical_errors(E))
        if got.shape != eff.shape or not np.array_equal(got % 2, eff) \
                or not np.array_equal(got, got % 2):
            bad = 0
            if got.shape == eff.shape:
                bad = int(np.argwhere((got != eff).any(axis=1))[0][0])
            fail('logical_errors_stacked',
                 f'stacked logical_errors differs from [Lz.e | Lx.e], e.g. '
                 f'error {E[bad].tolist()}: got '
                 f'{got[bad].tolist() if got.shape == eff.shape else got.shape} '
                 f'want {eff[bad].tolist()}')
    if not individually:
        return in_cs, eff, nt_keys, None
    for i in range(len(E)):
        e = E[i]
        ics = bool(code.in_codespace(e))
        if ics != bool(in_cs[i]):
            fail('in_codespace', f'error {e.tolist()}: in_codespace={ics}, '
                 f'commutes with all generators={bool(in_cs[i])}')
            continue
        if not ics:
            # outside the code space success must be false
            if code.is_success(e):
                fail('success_outside_codespace', f'error {e.tolist()}')
            continue
        member = span.contains(gf2.row_to_int(e))
        suc = bool(code.is_success(e))
        n_success += suc
        if suc != member:
            fail('success_iff_stabilizer',
                 f'error {e.tolist()}: is_success={suc}, in stabilizer group={member}')
        le = np.asarray(code.logical_errors(e))
        if le.shape != (2 * k,) or not np.array_equal(le, eff[i]):
            fail('logical_errors', f'error {e.tolist()}: got {le.tolist()} '
                 f'want {eff[i].tolist()}')
        if bool(code.is_logical_error(e)) != bool(eff[i].any()):
            fail('is_logical_error', f'error {e.tolist()}')
        if e.any() and len(nt_keys) < 1500:
            nt_keys.append(f'{keyprefix}:{gf2.row_to_int(e):x}')
    return in_cs, eff, nt_keys, n_success


def build(case):
    if case['kind'] in ('scrambled',):
        return usercode.make_user_code(case['spec'])
    return domain.build_from_case(case)


def eval_case(case):
    fails = []

    def fail(rel, detail):
        if len(fails) < 8:
            fails.append({'relation': rel, 'detail': detail})

    code = build(case)
    n = code.n
    kind = case['kind']
    label = case.get('cls', 'scrambled')
    prefix = f"{label}{case.get('size')}{case.get('deformation')}{case.get('kwargs')}" \
        if kind != 'scrambled' else f"scr{hash(str(case['spec'])) & 0xffffffff:x}"
    evals = 0
    nt_keys = []
    aux = None
    if kind in ('exhaustive', 'scrambled'):
        lo = case.get('lo', 0)
        hi = case.get('hi', 4 ** n)
        E = all_errors(n, lo, hi)
        in_cs, eff, nt_keys, n_success = check_errors(code, E, fail, True, prefix)
        evals = len(E)
        if lo == 0 and hi == 4 ** n:
            _, H, Lx, _, span = oracle(code)
            r = span.dim
            if int(in_cs.sum()) != 2 ** (2 * n - r):
                fail('count_codespace', f'{int(in_cs.sum())} != 2^{2 * n - r}')
            if n_success != 2 ** r:
                fail('count_success', f'{n_success} successes, 2^rank(H) = {2 ** r}')
        labels = [f'{kind}:{label}', f'n={n}']
    else:
        rng = np.random.default_rng(case['rseed'])
        _, H, Lx, Lz, span = oracle(code)
        m, k = H.shape[0], Lx.shape[0]
        basis = np.eye(2 * n, dtype=np.uint8)
        if case.get('light'):
            basis = basis[rng.choice(2 * n, size=min(2 * n, 40), replace=False)]
        rows = [basis, (H % 2).astype(np.uint8),
                Lx.astype(np.uint8), Lz.astype(np.uint8)]
        prods = []
        for _ in range(case.get('n_random', 60)):
            v = np.zeros(2 * n, dtype=np.int64)
            mode = rng.integers(0, 4)
            sel = rng.random(m) < rng.choice([0.1, 0.5])
            v += H[sel].sum(axis=0)
            if mode >= 1:
                v += Lx[rng.random(k) < 0.5].sum(axis=0)
                v += Lz[rng.random(k) < 0.5].sum(axis=0)
            if mode >= 2:
                p = rng.choice([0.5 / n, 2.0 / n, 0.5])
                v += rng.random(2 * n) < p
            prods.append((v % 2).astype(np.uint8))
        E = np.vstack(rows + [np.array(prods, dtype=np.uint8)])
        in_cs, eff, nt_keys, _ = check_errors(code, E, fail, True, prefix)
        evals = len(E)
        # coset constancy and additivity through the library
        for _ in range(6):
            i, j = rng.integers(0, len(E), size=2)
            s = (E[i] + E[j]) % 2
            a = np.asarray(code.logical_errors(E[i])).astype(int)
            b = np.asarray(code.logical_errors(E[j])).astype(int)
            c = np.asarray(code.logical_errors(s)).astype(int)
            if not np.array_equal((a + b) % 2, c):
                fail('logical_errors_additive', f'{E[i].tolist()} + {E[j].tolist()}')
            g = H[rng.integers(0, m)].astype(np.uint8)
            c2 = np.asarray(code.logical_errors((E[i] + g) % 2)).astype(int)
            if not np.array_equal(a, c2):
                fail('logical_errors_coset_constant', f'{E[i].tolist()}')
        # the same verdicts for an error handed over as a sparse row, also
        # one that came out of a mod-2 sum (`t = a + b; t.data %= 2` leaves
        # explicitly stored zeros where ones cancelled)
        from scipy.sparse import csr_matrix
        for _ in range(6):
            i = int(rng.integers(0, len(E)))
            mask = (rng.random(2 * n) < 0.3).astype(np.uint8)
            a_ = csr_matrix((E[i] ^ mask).reshape(1, -1))
            t_ = a_ + csr_matrix(mask.reshape(1, -1))
            t_.data %= 2
            for tag, sp in (('csr row', csr_matrix(E[i].reshape(1, -1))),
                            ('csr row with stored zeros', t_)):
                want = (bool(code.in_codespace(E[i])), bool(code.is_success(E[i])),
                        np.asarray(code.logical_errors(E[i])).ravel().tolist())
                try:
                    got = (bool(code.in_codespace(sp)), bool(code.is_success(sp)),
                           np.asarray(code.logical_errors(sp)).ravel().tolist())
                except Exception as exc:      # noqa
                    got = f'{type(exc).__name__}: {exc}'
                if got != want:
                    fail('verdicts_independent_of_representation',
                         f'error {E[i].tolist()} as {tag}: (in_codespace, is_success, '
                         f'logical_errors) = {got}, dense vector gives {want}')
                    break
        labels = [f'big:{label}']
    for f in fails:
        f['sig'] = {'class': label}
        f['detail'] = prefix + ': ' + f['detail']
    return {'fails': fails, 'nontrivial': False, 'nontrivial_keys': nt_keys,
            'labels': labels, 'evals': evals}


@st.composite
def scrambled_cases(draw, max_n=6):
    spec = draw(usercode.scrambled_specs(max_n=max_n))
    return {'kind': 'scrambled', 'spec': spec}


def small_cases(max_n, chunk=4 ** 6):
    out = []
    for cls, size in SMALL:
        n = domain.n_estimate(cls, size)
        if n > max_n:
            continue
        for name, kw in domain.deformations(cls):
            base = dict(domain.code_case(cls, size, name, kw), kind='exhaustive')
            total = 4 ** n
            if total <= chunk:
                out.append(base)
            else:
                for lo in range(0, total, chunk):
                    out.append(dict(base, lo=lo, hi=min(total, lo + chunk)))
    return out


def big_cases(max_L, max_L_2d, max_color, max_n, seed, n_random, hollow_L=6):
    out = []
    for i, c in enumerate(domain.all_code_cases(max_L, max_L_2d, max_color,
                                                max_n=max_n, thin=True)):
        if c['cls'] == 'Color666ToricCode' and c['size'][0] != c['size'][1]:
            continue
        out.append(dict(c, kind='big', rseed=seed * 100003 + i,
                        n_random=n_random))
    # the hollow lattices have size-dependent hole geometry in every
    # direction: all (also non-cubic) sizes up to the hollow bound
    from checks.c01_valid_code import case_sig
    have = {(c['cls'], tuple(c['size'])) for c in out}
    j = len(out)
    # ... and the colour codes list logical strings whose length grows with
    # the size: square sizes beyond the general bound
    for cls in domain.COLOR_2D:
        for L in range(max_color + 1, max_color + 3):
            size = (L, L)
            if domain.n_estimate(cls, size) > 800:
                continue
            j += 1
            out.append(dict(domain.code_case(cls, size), kind='big', rseed=seed * 100003 + j,
                            n_random=max(10, n_random // 4), light=True))
    for cls in ('HollowRhombicCode', 'HollowPlanar3DCode'):
        for size in domain.sizes(cls, hollow_L):
            c = domain.code_case(cls, size)
            if (cls, size) in have or case_sig(c).get('slab_hole'):
                continue
            if domain.n_estimate(cls, size) > 800:
                continue
            j += 1
            out.append(dict(c, kind='big', rseed=seed * 100003 + j, n_random=max(10, n_random // 4),
                            light=True))
    return out


def run(ctx):
    if ctx.tier == 'quick':
        cases = small_cases(7) + big_cases(3, 4, 3, 120, ctx.seed, 40)
        n_scr = 320
        scr_n = 5
    else:
        cases = small_cases(8) + big_cases(4, 6, 5, 800, ctx.seed, 120)
        n_scr = 3000
        scr_n = 6
    ctx.exhaustive = True
    ctx.note('excluded_from_domain',
             'Color666ToricCode with L_x != L_y (logicals cannot be built: C01 known finding)')
    ctx.run_cases(cases, chunk=1)
    ctx.run_hypothesis('scrambled_cases', n_scr, max_n=scr_n)
