"""C20 - the visualizer backend serves every offered choice with faithful
data."""
import json

import numpy as np
from hypothesis import strategies as st

from vf import domain, gf2

PROPERTY = 'C20'
LEVEL = 'exploration'
RULE = ('Flask test client (no server, no browser). Enumerated: every code '
        'name served by /code-names (2-D and 3-D) x every name from '
        '/deformation-names + "None" x picture in {kitaev, rotated} x menu '
        'sizes L and coprime (L+1, L[, L]) restricted to the supported size '
        'family; /decoder-names for every code. Hypothesis: /decode and '
        '/new-errors requests over (code, size, decoder offered for it, '
        'noise option, noise deformation, error rate, BP parameters, '
        'syndrome of a generated error). Oracle: the library called directly '
        'with the same arguments. Non-trivial = deformed code in the rotated '
        'picture at a coprime size (code-data) / non-zero syndrome (decode); '
        'distinct = distinct request')
ASSUMPTIONS = [
    'the JavaScript front end is not executed: what the menus offer is taken '
    'from the lists the backend serves plus the size menu (L = 1..12) and '
    'the coprime rule (L_x = L + 1) read from main.js',
    'numpy.random.default_rng is replaced by a seeded generator inside the '
    'harness for /new-errors',
    'sizes outside the supported family (DESIGN 0.1) and the C01 known '
    'finding (Color666ToricCode with L_x != L_y) are not requested',
]
MANIFEST_ENTRY = {
    'technique': 'exhaustive enumeration of the menu choices through the Flask '
                 'test client, the description loops of the code-data handler '
                 'at every entry of the size menu of every class + '
                 'Hypothesis-generated decode / new-errors requests; '
                 'differential against direct library calls',
    'level_text': 'Every (code, deformation, picture, size) the menus offer up '
                  'to the size bound is requested and the response compared '
                  'with the library (index order, completeness of every '
                  'drawable description, H and logicals); decoder offers, '
                  'decode and new-errors are compared with direct calls.',
    'level_note': 'The browser side is not exercised; sizes above the bound '
                  'are not requested.',
}

_CLIENT = {}


def client():
    if 'c' not in _CLIENT:
        from panqec.gui import GUI
        gui = GUI()
        gui.app.testing = False       # we want HTTP 500, not an exception
        _CLIENT['gui'] = gui
        _CLIENT['c'] = gui.app.test_client()
    return _CLIENT['gui'], _CLIENT['c']


def post(path, payload, compact=False):
    _, c = client()
    # compact = byte for byte what the browser's JSON.stringify sends
    data = json.dumps(payload, separators=(',', ':')) if compact else json.dumps(payload)
    r = c.post(path, data=data, content_type='application/json')
    body = None
    if r.status_code == 200:
        body = json.loads(r.data)
    return r.status_code, body


def label_to_class():
    gui, _ = client()
    return {label: cls.__name__ for label, cls in gui.codes.items()}


def sizes_for(cls, L, coprime):
    dim = domain.DIM[cls]
    size = [L] * dim
    if coprime:
        size[0] += 1
    return tuple(size)


def code_data_case(case, fail):
    cls = case['cls']
    size = tuple(case['size'])
    payload = {'Lx': size[0], 'Ly': size[1], 'code_name': case['label'],
               'code_deformation_name': case['deformation'] or 'None',
               'rotated_picture': case['rotated']}
    if len(size) == 3:
        payload['Lz'] = size[2]
    else:
        payload['Lz'] = size[0]
    status, body = post('/code-data', payload)
    if status != 200:
        f = fail('code_data_succeeds', f'HTTP {status}')
        return False
    code = domain.build_code(cls, size, case['deformation'], {})
    check_descriptions(code, body, case, fail)
    H = gf2.to_dense(code.stabilizer_matrix)
    if np.asarray(body.get('H')).shape != H.shape or not np.array_equal(np.asarray(body['H']), H):
        fail('H_identical', 'served H differs from the library\'s for the same (deformed) code')
    for key, ref in (('logical_x', code.logicals_x), ('logical_z', code.logicals_z)):
        got = np.asarray(body.get(key))
        if got.shape != np.asarray(ref).shape or not np.array_equal(got, np.asarray(ref)):
            fail(f'{key}_identical', f'served {key} differs from the library')
    return True


def rough_n(cls, size):
    """Number of qubits, extrapolated from a lattice of side <= 4 (building
    a 12^3 lattice only to count its qubits is what we want to avoid)."""
    small = tuple(min(L, 4) if L % 2 == 0 or L <= 4 else 3 for L in size)
    scale = 1.0
    for L, a in zip(size, small):
        scale *= L / a
    if not domain.size_ok(cls, small):
        small, scale = size, 1.0
    return domain.n_estimate(cls, small) * scale


def representation_case(case, fail):
    """The drawable descriptions of /code-data without the HTTP round trip
    and without serialising H: the handler's own two list comprehensions on
    the handler's own code object.  Cheap enough for every entry of the size
    menu (1..12, plain and coprime) of every class."""
    gui, _ = client()
    size = tuple(case['size'])
    payload = {'Lx': size[0], 'Ly': size[1], 'Lz': size[2] if len(size) == 3 else size[0],
               'code_name': case['label'],
               'code_deformation_name': case['deformation'] or 'None',
               'rotated_picture': case['rotated']}
    code = gui._instantiate_code(payload)
    rot = case['rotated']
    body = {'qubits': [code.qubit_representation(loc, rot) for loc in code.qubit_coordinates],
            'stabilizers': [code.stabilizer_representation(loc, rot)
                            for loc in code.stabilizer_coordinates]}
    body = json.loads(json.dumps(body))
    check_descriptions(code, body, case, fail)
    return True


def check_descriptions(code, body, case, fail):
    n, m = code.n, len(code.stabilizer_coordinates)
    if len(body.get('qubits', [])) != n:
        fail('one_description_per_qubit', f"{len(body.get('qubits', []))} != n={n}")
    if len(body.get('stabilizers', [])) != m:
        fail('one_description_per_stabilizer', f"{len(body.get('stabilizers', []))} != m={m}")
    from panqec.codes import StabilizerCode
    plain_q = type(code).qubit_representation is StabilizerCode.qubit_representation
    plain_s = type(code).stabilizer_representation is StabilizerCode.stabilizer_representation
    for kind, items, coords, plain, colour_keys in (
            ('qubit', body.get('qubits', []), code.qubit_coordinates, plain_q, ['I', 'X', 'Y', 'Z']),
            ('stabilizer', body.get('stabilizers', []), code.stabilizer_coordinates, plain_s,
             ['activated', 'deactivated'])):
        for i, (item, loc) in enumerate(zip(items, coords)):
            missing = [k for k in ('object', 'color', 'opacity', 'params', 'location') if k not in item]
            if missing:
                fail(f'{kind}_description_complete', f'{kind} {i} {tuple(loc)} lacks {missing}')
                break
            col = item['color']
            if not isinstance(col, dict) or any(
                    k not in col or not (isinstance(col[k], str) and col[k].startswith('0x'))
                    for k in colour_keys):
                fail(f'{kind}_colour_complete', f'{kind} {i}: color = {col}')
                break
            L = item['location']
            if not (isinstance(L, list) and 2 <= len(L) <= 3 and
                    all(isinstance(v, (int, float)) for v in L)):
                fail(f'{kind}_location', f'{kind} {i}: location = {L}')
                break
            if plain and list(L) != [int(v) for v in loc]:
                fail(f'{kind}_index_order', f'{kind} {i}: location {L} != library coordinate {tuple(loc)}')
                break
            if not plain:
                # overridden representations drop an index / rescale; the
                # coordinate must still be recognisable as a sub-sequence
                # (documented display transforms: dropped Pauli / axis index,
                # boundary offsets of less than one lattice unit)
                import itertools
                want = [int(v) for v in loc]
                near = any(max(abs(a - b) for a, b in zip(L, sub)) <= 1.0
                           for sub in itertools.combinations(want, len(L))) \
                    if len(want) >= len(L) else False
                if not case['rotated'] and not near:
                    fail(f'{kind}_index_order', f'{kind} {i}: location {L} vs coordinate {tuple(loc)}')
                    break


def decoder_names_case(case, fail):
    gui, _ = client()
    status, body = post('/decoder-names', {'code_name': case['label']})
    if status != 200:
        fail('decoder_names_succeeds', f'HTTP {status}')
        return
    want = sorted(name for name, klass in gui.decoders.items()
                  if klass.allowed_codes is None or case['cls'] in klass.allowed_codes)
    if sorted(body) != want:
        fail('decoders_offered_are_those_declaring_support',
             f"{case['label']}: served {sorted(body)}, declared {want}")


class SeededRNGPatch:
    def __init__(self, seed):
        self.seed = seed

    def __enter__(self):
        self.orig = np.random.default_rng
        seed = self.seed
        orig = self.orig

        def patched(s=None):
            return orig(seed if s is None else s)
        np.random.default_rng = patched

    def __exit__(self, *a):
        np.random.default_rng = self.orig


def request_case(case, fail):
    from panqec.error_models import PauliErrorModel
    gui, _ = client()
    cls, size = case['cls'], tuple(case['size'])
    dirs = {'Pure X': (1, 0, 0), 'Pure Y': (0, 1, 0), 'Pure Z': (0, 0, 1),
            'Depolarizing': (1 / 3, 1 / 3, 1 / 3)}
    payload = {'Lx': size[0], 'Ly': size[1], 'Lz': size[2] if len(size) == 3 else size[0],
               'code_name': case['label'],
               'code_deformation_name': case['deformation'] or 'None',
               'p': case['p'], 'noise_deformation_name': case['noise_deformation'] or 'None',
               'error_model': case['error_model']}
    code = domain.build_code(cls, size, case['deformation'], {})
    n = code.n
    em = PauliErrorModel(*dirs[case['error_model']], case['noise_deformation'])
    nt = False
    if case['kind'] == 'new-errors':
        # (the rate the backend hands to the noise model is recorded by
        # wrapping the model's generate() from here)
        seen_rates = []
        orig_generate = PauliErrorModel.generate

        def spy(self_, code_, error_rate, *a, **k):
            seen_rates.append(float(error_rate))
            return orig_generate(self_, code_, error_rate, *a, **k)
        PauliErrorModel.generate = spy
        try:
            with SeededRNGPatch(case['rseed']):
                status, body = post('/new-errors', payload)
        finally:
            PauliErrorModel.generate = orig_generate
        if status != 200:
            fail('new_errors_succeeds', f'HTTP {status}')
            return False
        if seen_rates and any(r_ != float(case['p']) for r_ in seen_rates):
            fail('new_errors_rate_is_requested_rate',
                 f'requested p={case["p"]!r}, the noise model was sampled at {seen_rates}')
        with SeededRNGPatch(case['rseed']):
            want = np.asarray(em.generate(code, case['p']))
        got = np.asarray(body)
        if got.shape != (2 * n,) or not set(np.unique(got).tolist()) <= {0, 1}:
            fail('new_errors_format', f'shape {got.shape}')
        elif not np.array_equal(got, want):
            fail('new_errors_equals_library', 'differs from PauliErrorModel.generate with the same generator')
        if case['p'] == 0 and got.any():
            fail('new_errors_p0', 'p = 0 produced errors')
        return bool(got.any())
    # decode
    rng = np.random.default_rng(case['rseed'])
    e = domain.random_bsf(rng, n, case['err_rate'])
    s = np.asarray(code.measure_syndrome(e))
    payload.update({'syndrome': [int(v) for v in s], 'decoder': case['decoder'],
                    'max_bp_iter': case['max_bp_iter'], 'alpha': case['alpha'],
                    'beta': case['beta'], 'channel_update': False})
    status, body = post('/decode', payload, compact=bool(case.get('compact')))
    if status != 200:
        fail('decode_succeeds', f'HTTP {status}')
        return False
    got = np.concatenate([np.asarray(body['x']), np.asarray(body['z'])])
    kwargs = {}
    if case['decoder'] in ('BP-OSD', 'MBP'):
        kwargs['max_bp_iter'] = case['max_bp_iter']
    if case['decoder'] == 'BP-OSD':
        kwargs['osd_order'] = 0
    if case['decoder'] == 'MBP':
        kwargs['alpha'], kwargs['beta'] = case['alpha'], case['beta']
    dec = gui.decoders[case['decoder']](code, em, case['p'], **kwargs)
    want = np.asarray(dec.decode(np.array([int(v) for v in s])))
    if got.shape != (2 * n,):
        fail('decode_format', f'shape {got.shape}')
    elif not np.array_equal(got % 2, want % 2):
        fail('decode_equals_library', f"{case['decoder']}: response differs from the library decoder "
             f'called with the same arguments')
    return bool(s.any())


def added_code_case(case, fail):
    """A code of the user's own, put on the menu the documented way
    (gui.add_code): it is offered, so every request must serve it."""
    from panqec.codes import Toric2DCode
    from panqec.error_models import PauliErrorModel
    gui, _ = client()

    class MyVerifToricCode(Toric2DCode):
        # drawn like the toric code (looks its pictures up under that name)
        @property
        def id(self):
            return 'Toric2DCode'

    label = 'My verif code'
    import panqec.gui._gui as guimod
    before = (dict(gui.codes), dict(guimod.codes))
    gui.add_code(MyVerifToricCode, label)
    try:
        status, names = post('/code-names', {'dimension': 2})
        if status != 200 or label not in names:
            fail('added_code_offered', f'/code-names (2d) does not list the added code: HTTP {status}')
            return False
        size = tuple(case['size'])
        code = MyVerifToricCode(*size)
        status, defs = post('/deformation-names', {'code_name': label})
        if status != 200 or list(defs) != list(MyVerifToricCode.deformation_names):
            fail('added_code_served', f'/deformation-names: HTTP {status} {defs}')
        status, decs = post('/decoder-names', {'code_name': label})
        want = sorted(nm for nm, k in gui.decoders.items()
                      if k.allowed_codes is None or 'MyVerifToricCode' in k.allowed_codes)
        if status != 200 or sorted(decs) != want:
            fail('added_code_served', f'/decoder-names: HTTP {status}, {decs} (declaring support: {want})')
        payload = {'Lx': size[0], 'Ly': size[1], 'Lz': size[0], 'code_name': label,
                   'code_deformation_name': 'None', 'rotated_picture': False}
        status, body = post('/code-data', payload)
        if status != 200:
            fail('added_code_served', f'/code-data: HTTP {status}')
        else:
            check_descriptions(code, body, dict(case, rotated=False), fail)
            if not np.array_equal(np.asarray(body['H']), gf2.to_dense(code.stabilizer_matrix)):
                fail('H_identical', 'added code: served H differs from the library')
        em = PauliErrorModel(1 / 3, 1 / 3, 1 / 3)
        e = domain.random_bsf(np.random.default_rng(case['rseed']), code.n, 0.1)
        s_ = [int(v) for v in code.measure_syndrome(e)]
        req = {'Lx': size[0], 'Ly': size[1], 'Lz': size[0], 'code_name': label,
               'code_deformation_name': 'None', 'p': 0.1, 'noise_deformation_name': 'None',
               'error_model': 'Depolarizing', 'syndrome': s_, 'decoder': 'BP-OSD',
               'max_bp_iter': 10, 'alpha': 0.4, 'beta': 0, 'channel_update': False}
        status, body = post('/decode', req)
        if status != 200:
            fail('added_code_served', f'/decode: HTTP {status}')
        else:
            dec = gui.decoders['BP-OSD'](code, em, 0.1, max_bp_iter=10, osd_order=0)
            want_c = np.asarray(dec.decode(np.array(s_)))
            got = np.concatenate([np.asarray(body['x']), np.asarray(body['z'])])
            if got.shape != want_c.shape or not np.array_equal(got % 2, want_c % 2):
                fail('decode_equals_library', 'added code: /decode differs from the library decoder')
        with SeededRNGPatch(case['rseed']):
            status, body = post('/new-errors', {k: req[k] for k in (
                'Lx', 'Ly', 'Lz', 'code_name', 'code_deformation_name', 'p',
                'noise_deformation_name', 'error_model')})
        if status != 200:
            fail('added_code_served', f'/new-errors: HTTP {status}')
        else:
            with SeededRNGPatch(case['rseed']):
                want_e = np.asarray(em.generate(code, 0.1))
            if not np.array_equal(np.asarray(body), want_e):
                fail('new_errors_equals_library', 'added code: /new-errors differs from the library')
    finally:
        for reg, old in ((gui.codes, before[0]), (guimod.codes, before[1])):
            for k in list(reg):
                if k not in old:
                    del reg[k]
    return True


class _Fail:
    def __init__(self):
        self.items = []

    def __call__(self, rel, detail):
        f = {'relation': rel, 'detail': detail, 'sig': {}}
        if len(self.items) < 6:
            self.items.append(f)
        return f


def eval_case(case):
    fail = _Fail()
    nt = False
    if case['kind'] == 'code-data':
        ok = code_data_case(case, fail)
        nt = bool(case['deformation']) and case['rotated'] and case['coprime']
        labels = ['code-data', case['cls'], 'rotated' if case['rotated'] else 'kitaev']
    elif case['kind'] == 'representation':
        representation_case(case, fail)
        nt = case['size'][0] >= 7
        labels = ['representation', case['cls'], f"L={min(case['size'])}"]
    elif case['kind'] == 'added-code':
        added_code_case(case, fail)
        nt = True
        labels = ['added-code']
    elif case['kind'] == 'decoder-names':
        decoder_names_case(case, fail)
        nt = True
        labels = ['decoder-names']
    else:
        nt = request_case(case, fail)
        labels = [case['kind'], case.get('decoder', '-')]
    for f in fail.items:
        f['sig'].update({'class': case.get('cls'), 'picture': 'rotated' if case.get('rotated') else 'kitaev'})
        f['detail'] = f"{case.get('label')} {case.get('size')} deformation={case.get('deformation')} " \
                      f"rotated={case.get('rotated')}: " + f['detail']
    return {'fails': fail.items, 'nontrivial': nt, 'labels': labels}


def case_sig(case):
    size = case.get('size') or [0, 0]
    return {'class': case.get('cls'), 'picture': 'rotated' if case.get('rotated') else 'kitaev',
            'shape': ('Lx<Ly' if size[0] < size[1] else 'Lx>Ly' if size[0] > size[1] else 'square')}


MENU_MAX = 12       # largest entry of the size menu in main.js


def menu_cases(max_L, max_n, max_n_edge=700, thorough=False, max_n_repr=20000):
    l2c = label_to_class()
    served = []
    for dim in (2, 3):
        status, names = post('/code-names', {'dimension': dim})
        assert status == 200
        served += names
    cases = []
    for label in served:
        cls = l2c[label]
        status, defs = post('/deformation-names', {'code_name': label})
        assert status == 200
        cases.append({'kind': 'decoder-names', 'label': label, 'cls': cls})
        for deformation in [None] + list(defs):
            for rotated in (False, True):
                for L in list(range(1, max_L + 1)) + [MENU_MAX]:
                    for coprime in (False, True):
                        size = sizes_for(cls, L, coprime)
                        if not domain.size_ok(cls, size):
                            continue
                        if cls == 'Color666ToricCode' and size[0] != size[1]:
                            continue       # C01 known finding
                        if L == MENU_MAX and not thorough and \
                                cls not in ('Toric2DCode', 'Planar2DCode', 'RotatedPlanar2DCode',
                                            'Color666PlanarCode'):
                            continue        # quick: menu edge on the cheap classes only
                        if domain.n_estimate(cls, size) > (max_n_edge if L == MENU_MAX else max_n):
                            continue
                        if L == MENU_MAX and (rotated or (deformation and coprime)) and not thorough:
                            continue        # quick: one picture at the menu edge
                        cases.append({'kind': 'code-data', 'label': label, 'cls': cls,
                                      'size': list(size), 'deformation': deformation,
                                      'rotated': rotated, 'coprime': coprime})
        # every entry of the size menu: descriptions only (no H, no HTTP)
        for L in range(1, MENU_MAX + 1):
            for coprime in (False, True):
                size = sizes_for(cls, L, coprime)
                if not domain.size_ok(cls, size) or \
                        (cls == 'Color666ToricCode' and size[0] != size[1]):
                    continue
                if rough_n(cls, size) > max_n_repr:
                    continue
                combos = [(d_, r_) for d_ in [None] + list(defs) for r_ in (False, True)]
                if not thorough:
                    # quick: the undeformed Kitaev picture at every size, the
                    # other pictures at three sizes
                    combos = combos[:1] + (combos[1:3] if L in (5, 8, 12) and not coprime else [])
                for deformation, rotated in combos:
                    cases.append({'kind': 'representation', 'label': label, 'cls': cls,
                                  'size': list(size), 'deformation': deformation,
                                  'rotated': rotated, 'coprime': coprime})
    return cases


def large_decode_cases(thorough, max_n):
    """/decode at the largest entry of the size menu of every class (the
    request whose body grows with the code: it carries the whole syndrome)."""
    l2c = label_to_class()
    out = []
    for label, cls in sorted(l2c.items()):
        # the largest menu entry of the class that is in its size family
        # and within the tier's budget
        size = None
        for L in range(MENU_MAX, 0, -1):
            for coprime in (True, False):
                cand = sizes_for(cls, L, coprime)
                if domain.size_ok(cls, cand) and rough_n(cls, cand) <= max_n and \
                        not (cls == 'Color666ToricCode' and cand[0] != cand[1]):
                    size = cand
                    break
            if size:
                break
        if size is None:
            continue
        out.append({'kind': 'decode', 'label': label, 'cls': cls, 'size': list(size),
                    'deformation': None, 'noise_deformation': None, 'error_model': 'Depolarizing',
                    'p': 0.1, 'rseed': 1, 'decoder': 'BP-OSD', 'max_bp_iter': 2, 'alpha': 0.4,
                    'beta': 0, 'err_rate': 0.0 if not thorough else 0.001, 'compact': True})
    return out


@st.composite
def request_cases(draw):
    l2c = label_to_class()
    gui, _ = client()
    label = draw(st.sampled_from(sorted(l2c)))
    cls = l2c[label]
    edge_ok = cls in ('Toric2DCode', 'Planar2DCode', 'RotatedPlanar2DCode')
    L = draw(st.one_of(st.integers(1, 3 if domain.DIM[cls] == 3 else 4),
                       st.just(MENU_MAX) if edge_ok else st.integers(1, 3)))
    coprime = draw(st.booleans())
    size = sizes_for(cls, L, coprime)
    if (not domain.size_ok(cls, size) or (cls == 'Color666ToricCode' and size[0] != size[1])
            or domain.n_estimate(cls, size) > (330 if L == MENU_MAX else 120)):
        size = decoding_smallest(cls)
    names = list(domain.get_class(cls).deformation_names)
    kind = draw(st.sampled_from(['decode', 'decode', 'new-errors']))
    case = {'kind': kind, 'label': label, 'cls': cls, 'size': list(size),
            'deformation': None,
            'noise_deformation': draw(st.sampled_from([None] + names)),
            'error_model': draw(st.sampled_from(['Pure X', 'Pure Y', 'Pure Z', 'Depolarizing'])),
            # (the slider is continuous on [0, 0.5])
            'p': draw(st.one_of(st.sampled_from([0.0, 0.05, 0.1, 0.3, 0.004, 0.0749, 0.255, 0.5]),
                                st.floats(0, 0.5))) if kind == 'new-errors'
            else draw(st.sampled_from([0.05, 0.1, 0.3, 0.0749])),
            'rseed': draw(st.integers(0, 2**30))}
    if kind == 'decode':
        offered = sorted(name for name, klass in gui.decoders.items()
                         if klass.allowed_codes is None or cls in klass.allowed_codes)
        dec = draw(st.sampled_from(offered))
        n = domain.n_estimate(cls, size)
        if dec == 'MBP' and n > 20:
            dec = 'BP-OSD'
        if dec == 'Union-Find' and n > 120:
            dec = 'Matching'        # pure-Python union-find takes seconds there
        if dec == 'RotatedSweepMatch' and cls == 'RotatedToric3DCode' and size[0] % 2 != size[1] % 2:
            dec = 'BP-OSD'         # C05 known finding
        # the sliders of the menu: max_bp_iter, alpha in [0, 2], beta in [0, 2]
        # in steps of 0.01
        case.update(decoder=dec, max_bp_iter=draw(st.sampled_from([2, 20])) if dec != 'MBP'
                    else draw(st.sampled_from([2, 3])),
                    alpha=draw(st.sampled_from([0.4, 0.25, 1.0, 0.75])),
                    beta=draw(st.sampled_from([0, 0.25, 0.5, 1.5, 1, 0.01])),
                    err_rate=draw(st.sampled_from([0.0, 0.03, 0.1])))
        if dec in ('BP-OSD', 'MBP') and names and draw(st.booleans()):
            case['deformation'] = draw(st.sampled_from(names))
    return case


def decoding_smallest(cls):
    from vf import decoding
    return decoding.size_pool(cls, 2, 2, 1, 10)[0]


def run(ctx):
    quick = ctx.tier == 'quick'
    cases = menu_cases(4 if quick else 6, 400 if quick else 1500,
                       max_n_edge=700 if quick else 6000, thorough=not quick,
                       max_n_repr=2800 if quick else 25000)
    ctx.exhaustive = True
    ctx.note('menu_cases', len(cases))
    ctx.note('excluded_from_domain',
             'sizes outside the supported family; Color666ToricCode with L_x != L_y (C01 known finding)')
    rep = sorted((c for c in cases if c['kind'] == 'representation'),
                 key=lambda c: -rough_n(c['cls'], tuple(c['size'])))
    ctx.run_cases(rep, chunk=1)
    ctx.run_cases([c for c in cases if c['kind'] != 'representation'], chunk=4)
    ctx.run_cases(large_decode_cases(not quick, 6500 if quick else 25000), chunk=1)
    ctx.run_cases([{'kind': 'added-code', 'label': 'My verif code', 'cls': 'Toric2DCode',
                    'size': list(sz), 'rseed': ctx.seed + i}
                   for i, sz in enumerate([(2, 2), (3, 4)] if quick else
                                          [(2, 2), (3, 4), (5, 5), (4, 7), (12, 12)])], chunk=1)
    ctx.run_hypothesis('request_cases', 400 if quick else 20000)
