"""C16 - threshold estimation recovers a planted finite-size-scaling
threshold."""
import gzip
import json
import math
import os
import shutil

import numpy as np
from hypothesis import strategies as st

from vf import runner

PROPERTY = 'C16'
LEVEL = 'exploration'
RULE = ('Hypothesis draws (p_th, nu, A, B, C) in a well-conditioned box, 3-5 '
        'distances from {3,...,13}, 7-13 error rates on a symmetric window '
        'around p_th chosen so that every ansatz value lies in [0.02, 0.95], '
        'trial counts N in {4000, 20000}; each data point becomes 1, 2 or 4 '
        'result records (runs of equal length and equal recorded wall time, '
        'different failure counts) whose pooled failure count is round(f N), '
        'written through the real '
        'file formats in a generated file / record order. Oracle: fit flagged '
        'successful, threshold inside its own interval and the data range, '
        '|p_th_fss - p_th| <= max(4 se, 0.03 range), and a second '
        'permutation of files/rows gives the same threshold. Non-trivial = '
        'C != 0 and >= 4 distances; distinct = distinct case dict')
ASSUMPTIONS = [
    'well-conditioned box: p_th in [0.05,0.3], nu in [0.7,1.6], A in '
    '[0.15,0.5], B in [0.5,3] (scaled so the window fits), C in [0,2]',
    'tolerance max(4 * reported se, 3% of the error-rate range); the '
    'observed error distribution is recorded in the evidence',
    'order invariance compared to 1e-9 relative',
]
MANIFEST_ENTRY = {
    'technique': 'Hypothesis-generated planted data sets (known threshold) '
                 'written through the real result-file formats and analysed '
                 'by the real pipeline (points split into several runs, results '
                 'supplied as a directory or as a list of files, directories '
                 'and zip archives); oracle = planted parameter within '
                 'stated tolerance + metamorphic file/row/path permutation',
    'level_text': 'The whole analysis pipeline (file discovery, aggregation, '
                  'finite-size-scaling fit, seeded bootstrap) is run on data '
                  'lying exactly on the documented ansatz with a known '
                  'threshold, and must recover it within a stated tolerance, '
                  'inside its own confidence interval and data range, '
                  'independent of input order.',
    'level_note': 'Inherently tolerance based: errors below the tolerance are '
                  'invisible; the well-conditioned box is the harness\'s.',
}

_INP = {}


def inputs_for(d, rate, family=None):
    """family None: depolarising noise.  'x' / 'y': XZZX-deformed biased
    noise along that axis - two parameter sets that differ only inside the
    noise model's deformation_kwargs."""
    key = (d, family)
    if key not in _INP:
        from panqec.codes import RotatedPlanar2DCode
        from panqec.error_models import PauliErrorModel
        from panqec.decoders import BeliefPropagationOSDDecoder
        from panqec.simulation import DirectSimulation
        code = RotatedPlanar2DCode(d, d)
        em = PauliErrorModel(1 / 3, 1 / 3, 1 / 3) if family is None else \
            PauliErrorModel(0.1, 0.1, 0.8, deformation_name='XZZX',
                            deformation_kwargs={'deformation_axis': family})
        dec = BeliefPropagationOSDDecoder(code, em, 0.1)
        sim = DirectSimulation(code, em, dec, 0.1, verbose=False)
        _INP[key] = json.loads(json.dumps(sim._inputs, default=runner._js))
    inp = json.loads(json.dumps(_INP[key]))
    inp['error_rate'] = rate
    return inp


def ansatz(p, d, par):
    p_th, nu, A, B, C = par
    x = (p - p_th) * d ** nu
    return A + B * x + C * x * x


def make_records(case):
    recs = []
    fams = [None] if case.get('families', 1) == 1 else ['x', 'y']
    for fam in fams:
        recs += make_family_records(case, fam)
    return recs


def make_family_records(case, fam):
    par = case['params']
    recs = []
    for di, d in enumerate(case['distances']):
        lo, hi = (case.get('trims') or [[0, 0]] * len(case['distances']))[di]
        rates_d = case['rates'][lo:len(case['rates']) - hi]
        for p in rates_d:
            f = ansatz(p, d, par)
            N = case['N']
            nf = int(round(f * N))
            eff = [[1, 0]] * nf + [[0, 0]] * (N - nf)
            suc = [False] * nf + [True] * (N - nf)
            # a failure is a trial that ends outside the code space or with a
            # logical effect: a distance-dependent share of the planted
            # failures is of the first kind (spread evenly over the runs)
            share = (case.get('oocs') or [0.0] * len(case['distances']))[di]
            cs = [True] * N
            n_out = int(share * nf)
            if n_out:
                for j in np.linspace(0, nf - 1, n_out).astype(int):
                    cs[int(j)] = False
                    eff[int(j)] = [0, 0]
            # the trials of a point may come from several runs (tasks of a
            # parallel run get equal shares and may well record equal times);
            # pooled, the planted rate is untouched
            R = case.get('runs', 1)
            assert N % R == 0
            for ri, a in enumerate(range(0, N, N // R)):
                b = a + N // R
                # the runs of a point may write its rate a few ulps apart (a
                # typed literal, the value a range computes)
                p_written = p
                if case.get('ulp'):
                    for _ in range(ri % 3):
                        p_written = math.nextafter(p_written, 1.0)
                recs.append({'inputs': inputs_for(d, p_written, fam),
                             'results': {'n_runs': b - a, 'wall_time': 1.0,
                                         'effective_error': eff[a:b], 'success': suc[a:b],
                                         'codespace': cs[a:b]}})
    return recs


def write(root, recs, order_seed, per_file, mode='dir'):
    """Write the records; returns what to hand to Analysis: the directory,
    or (modes 'paths', 'zips') a list of paths in a generated order - plain
    files, sub-directories and zip archives, as `panqec analyze P1 P2 ...`
    and the Analysis docstring allow."""
    import zipfile
    os.makedirs(root)
    rng = np.random.default_rng(order_seed)
    idx = rng.permutation(len(recs))
    files = [idx[i:i + per_file] for i in range(0, len(idx), per_file)]
    n_parts = 1 if mode == 'dir' else int(rng.integers(2, 5))
    parts = [[] for _ in range(n_parts)]
    for j, chunk in enumerate(files):
        data = [recs[int(i)] for i in chunk]
        name = f'r{int(rng.integers(0, 10**6)):06d}_{j}.json' + ('.gz' if j % 2 == 0 else '')
        blob = json.dumps(data).encode()
        parts[j % n_parts].append((name, gzip.compress(blob) if j % 2 == 0 else blob))
    if mode == 'dir':
        for name, blob in parts[0]:
            with open(os.path.join(root, name), 'wb') as fh:
                fh.write(blob)
        return root
    paths = []
    for k, members in enumerate(parts):
        if not members:
            continue
        as_zip = mode == 'zips' and (k % 2 == 0 or k == 1)
        if as_zip:
            zp = os.path.join(root, f'part{k}.zip')
            with zipfile.ZipFile(zp, 'w') as zf:
                for name, blob in members:
                    zf.writestr(f'results/{name}', blob)
            paths.append(zp)
        elif mode == 'paths' and k % 2:
            for name, blob in members:
                with open(os.path.join(root, name), 'wb') as fh:
                    fh.write(blob)
                paths.append(os.path.join(root, name))
        else:
            d = os.path.join(root, f'part{k}')
            os.makedirs(d)
            for name, blob in members:
                with open(os.path.join(d, name), 'wb') as fh:
                    fh.write(blob)
            paths.append(d)
    return [paths[i] for i in rng.permutation(len(paths))]


def eval_case(case):
    from panqec.analysis import Analysis
    fails = []

    def fail(rel, detail):
        if len(fails) < 6:
            fails.append({'relation': rel, 'detail': detail})
    base = os.path.join(runner.scratch_dir('c16'), f'p{os.getpid()}')
    shutil.rmtree(base, ignore_errors=True)
    os.makedirs(base)
    recs = make_records(case)
    p_th = case['params'][0]
    rows = []
    extra_rows = []
    for li, lay in enumerate(case['layouts']):
        seed, per_file = lay[0], lay[1]
        root = os.path.join(base, f'l{li}')
        target = write(root, recs, seed, per_file, lay[2] if len(lay) > 2 else 'dir')
        an = Analysis(target, verbose=False)
        if case.get('autotruncate'):
            # the documented option that narrows the fitting window itself
            an.calculate_thresholds(autotruncate=True)
        th = an.thresholds
        if len(th) != case.get('families', 1):
            fail('one_threshold_row', f"{len(th)} threshold rows for {case.get('families', 1)} "
                 f'parameter set(s)')
            break
        rows.append(th.iloc[0])
        extra_rows = [th.iloc[i] for i in range(1, len(th))] if li == 0 else extra_rows
    aux = None
    for r in (extra_rows if rows and not fails else []):
        # the second parameter set carries the same planted data
        if r['fit_status'] != 'success' or abs(float(r['p_th_fss']) - float(rows[0]['p_th_fss'])) > \
                1e-9 * max(1e-12, abs(float(rows[0]['p_th_fss']))):
            fail('parameter_sets_fitted_separately',
                 f"second parameter set: status {r['fit_status']!r}, p_th_fss {float(r['p_th_fss'])!r} "
                 f"vs {float(rows[0]['p_th_fss'])!r} for identical data")
    if rows and not fails:
        r = rows[0]
        if r['fit_status'] != 'success':
            fail('fit_flagged_successful', f"fit_status = {r['fit_status']!r}")
        else:
            fss, lo, hi, se = (float(r['p_th_fss']), float(r['p_th_fss_left']),
                               float(r['p_th_fss_right']), float(r['p_th_fss_se']))
            pl, pr = float(r['p_left']), float(r['p_right'])
            if not (pl <= fss <= pr):
                fail('threshold_in_data_range', f'{fss} not in [{pl}, {pr}]')
            if not (lo <= fss <= hi):
                fail('threshold_in_own_interval', f'{fss} not in [{lo}, {hi}]')
            tol = max(4 * se, 0.03 * (pr - pl))
            err = abs(fss - p_th)
            aux = {'err_over_se': err / se if se > 0 else None,
                   'err_over_range': err / (pr - pl), 'p_th': p_th, 'fss': fss, 'se': se}
            if not err <= tol:
                fail('recovers_planted_threshold',
                     f'p_th_fss={fss:.6f} planted {p_th:.6f}: error {err:.2e} > '
                     f'max(4 se={4 * se:.2e}, 3% range={0.03 * (pr - pl):.2e})')
            # the best-fit threshold reported next to it (first of the five
            # fit parameters, the one the data-collapse is drawn with)
            best = float(np.asarray(r['fss_params'], dtype=float)[0])
            if not abs(best - p_th) <= tol:
                fail('best_fit_threshold_recovers_planted',
                     f'fss_params[0]={best:.6f} planted {p_th:.6f} (p_th_fss={fss:.6f}): '
                     f'error {abs(best - p_th):.2e} > {tol:.2e}')
            if len(rows) > 1:
                f2 = float(rows[1]['p_th_fss'])
                if not abs(f2 - fss) <= 1e-9 * max(abs(fss), 1e-12):
                    fail('order_invariant', f'p_th_fss {fss!r} vs {f2!r} for two file/row orders')
    shutil.rmtree(base, ignore_errors=True)
    for f in fails:
        f['sig'] = {'bucket': f['relation']}
        f['detail'] = f"params={case['params']} d={case['distances']} " \
                      f"rates={len(case['rates'])} N={case['N']}: " + f['detail']
    nt = case['params'][4] != 0 and len(case['distances']) >= 4
    out = {'fails': fails, 'nontrivial': nt,
           'labels': [f"distances={len(case['distances'])}", f"N={case['N']}",
                      'window:' + case.get('shape', 'sym'),
                      'ragged-grid' if any(t != [0, 0] for t in (case.get('trims') or [])) else 'common-grid',
                      'C=0' if case['params'][4] == 0 else 'C>0',
                      f"runs-per-point={case.get('runs', 1)}",
                      'some-failures-outside-codespace' if any(case.get('oocs') or []) else 'all-in-codespace',
                      'autotruncate' if case.get('autotruncate') else 'default-window']
                     + sorted(
                          {'supplied-as:' + (l[2] if len(l) > 2 else 'dir') for l in case['layouts']}),
           'evals': len(case['layouts'])}
    if aux:
        out['aux'] = aux
    return out


@st.composite
def cases(draw):
    p_th = draw(st.floats(0.05, 0.3))
    nu = draw(st.floats(0.7, 1.6))
    A = draw(st.floats(0.15, 0.5))
    C = draw(st.one_of(st.just(0.0), st.floats(0.0, 2.0)))
    nd = draw(st.integers(3, 5))
    dist = sorted(draw(st.lists(st.sampled_from([3, 5, 7, 9, 11, 13]), min_size=nd,
                                max_size=nd, unique=True)))
    dmax = max(dist)
    # constructive window: |x| <= xmax at the largest distance keeps the
    # ansatz inside [0.02, 0.95]
    B_raw = draw(st.floats(0.5, 3.0))
    xmax = draw(st.floats(0.08, 0.25))
    # shrink xmax until all values are inside the allowed band
    for _ in range(40):
        vals = [A + s * B_raw * xmax + C * xmax * xmax for s in (-1, 1)]
        if min(vals) >= 0.02 and max(vals) <= 0.95:
            break
        xmax *= 0.85
    half = min(xmax / dmax ** nu, 0.9 * p_th)
    nr = draw(st.sampled_from([7, 9, 11, 13]))
    # window position: symmetric, or shifted so that only one or two of the
    # supplied rates lie below (above) p_th
    shape = draw(st.sampled_from(['sym', 'sym', 'low-edge', 'high-edge']))
    if shape == 'sym':
        rates = [round(p_th + half * (2 * i / (nr - 1) - 1), 6) for i in range(nr)]
    else:
        step = half / (nr - 1)              # same total width as a half window
        below = draw(st.sampled_from([1, 2]))
        offs = [(i - below + 0.5) * 2 * step for i in range(nr)]
        if shape == 'high-edge':
            offs = [-o for o in reversed(offs)]
        # keep every planted value inside [0.02, 0.95] and every rate positive
        for _ in range(60):
            vals = [A + B_raw * (o * dd ** nu) + C * (o * dd ** nu) ** 2 for o in offs for dd in dist]
            if min(vals) >= 0.02 and max(vals) <= 0.95 and p_th + min(offs) > 0.1 * p_th:
                break
            offs = [0.85 * o for o in offs]
        rates = [round(p_th + o, 6) for o in offs]
    N = draw(st.sampled_from([4000, 20000]))
    modes = st.sampled_from(['dir', 'dir', 'paths', 'zips', 'zips'])
    layouts = [[draw(st.integers(0, 10**6)), draw(st.integers(1, 12)), draw(modes)]]
    if draw(st.booleans()):
        layouts.append([draw(st.integers(0, 10**6)), draw(st.integers(1, 12)), draw(modes)])
    # ragged grids: a distance may lack the outermost one or two rates on
    # either side (every distance keeps >= 7 rates around p_th)
    trims = [[0, 0]] * len(dist)
    if nr >= 9 and draw(st.booleans()):
        room = (nr - 7) // 2
        trims = [[draw(st.integers(0, room)), draw(st.integers(0, room))] for _ in dist]
        # never trim on the side where only one or two rates lie beyond p_th:
        # the threshold must stay inside the data of every distance
        if shape == 'low-edge':
            trims = [[0, t[1]] for t in trims]
        elif shape == 'high-edge':
            trims = [[t[0], 0] for t in trims]
    return {'params': [p_th, nu, A, B_raw, C], 'distances': dist, 'rates': rates,
            'trims': trims, 'N': N, 'layouts': layouts, 'shape': shape,
            'runs': draw(st.sampled_from([1, 1, 2, 4])), 'ulp': draw(st.booleans()),
            'families': draw(st.sampled_from([1, 1, 2])),
            'autotruncate': draw(st.sampled_from([False, False, True])),
            'oocs': ([0.0] * len(dist) if draw(st.booleans()) else
                     [draw(st.sampled_from([0.0, 0.1, 0.2, 0.3, 0.5])) for _ in dist])}


def run(ctx):
    quick = ctx.tier == 'quick'
    ctx.run_hypothesis('cases', 64 if quick else 1600)
    if ctx.aux:
        es = sorted(a['err_over_se'] for a in ctx.aux if a['err_over_se'] is not None)
        er = sorted(a['err_over_range'] for a in ctx.aux)
        ctx.note('observed_err_over_se', {'n': len(es), 'median': es[len(es) // 2], 'max': es[-1]})
        ctx.note('observed_err_over_range', {'median': er[len(er) // 2], 'max': er[-1]})
    shutil.rmtree(runner.scratch_dir('c16'), ignore_errors=True)
