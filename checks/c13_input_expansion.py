"""C13 - input specifications expand to exactly the requested simulations."""
import collections
import itertools
import json
import os

import numpy as np
from hypothesis import strategies as st

from vf import decoding, domain, gf2, runner

PROPERTY = 'C13'
LEVEL = 'exploration'
RULE = ('Hypothesis builds specs from the grammar the repository itself uses '
        '(single "ranges" dict, list of ranges dicts, explicit "runs"): 1..5 '
        'values per axis; code / noise parameters as lists of (partial) dicts '
        'or positional lists, or one dict in runs; decoder with no '
        'parameters, {}, one dict or a list of dicts; every registered class '
        'name (decoder restricted to codes it allows). Oracle: the Cartesian '
        'product computed by the harness from the generated pieces, compared '
        'as a multiset with what read_input_dict builds; registry name '
        'resolution; round trip of recorded inputs. Non-trivial = spec with '
        '>= 2 axes having >= 2 values each; distinct = distinct spec')
ASSUMPTIONS = [
    'only the spec forms the repository documents or produces are generated '
    '(a bare scalar error_rate inside "ranges" is not one of them)',
    'register_code-style user registration is not covered',
]
MANIFEST_ENTRY = {
    'technique': 'grammar-based Hypothesis generation of input specifications; '
                 'reference model = Cartesian product computed by the harness '
                 '(multiset comparison); round-trip re-instantiation from the '
                 'recorded inputs; exhaustive registry name check',
    'level_text': 'Each generated specification is expanded by the real reader '
                  'and compared, as a multiset of fully resolved (code class, '
                  'size, noise, decoder, parameters, rate) tuples, with an '
                  'independently computed product; every registry key is '
                  'checked to resolve to the class of that name.',
    'level_note': 'Spec forms outside the repository\'s own usage are not '
                  'generated.',
}

DEC_FOR = {
    'Toric2DCode': ['MatchingDecoder', 'UnionFindDecoder', 'BeliefPropagationOSDDecoder'],
    'Planar2DCode': ['MatchingDecoder', 'BeliefPropagationOSDDecoder'],
    'RotatedPlanar2DCode': ['MatchingDecoder', 'BeliefPropagationOSDDecoder',
                            'MemoryBeliefPropagationDecoder'],
    'Toric3DCode': ['SweepMatchDecoder', 'BeliefPropagationOSDDecoder'],
    'Planar3DCode': ['SweepMatchDecoder', 'BeliefPropagationOSDDecoder'],
    'RotatedPlanar3DCode': ['RotatedSweepMatchDecoder', 'BeliefPropagationOSDDecoder'],
    'RotatedToric3DCode': ['BeliefPropagationOSDDecoder'],
    'XCubeCode': ['XCubeMatchingDecoder', 'BeliefPropagationOSDDecoder'],
}


def resolve_size(cls, params):
    """Size the documented constructor semantics give for a parameter set."""
    dim = domain.DIM[cls]
    if isinstance(params, dict):
        Lx = params['L_x']
        Ly = params.get('L_y')
        Lz = params.get('L_z')
    else:
        Lx = params[0]
        Ly = params[1] if len(params) > 1 else None
        Lz = params[2] if len(params) > 2 else None
    if Ly is None:
        Ly = Lx
    if Lz is None:
        Lz = Lx
    return (Lx, Ly) if dim == 2 else (Lx, Ly, Lz)


def resolve_noise(params):
    if isinstance(params, dict):
        return (params['r_x'], params['r_y'], params['r_z'],
                params.get('deformation_name'),
                runner.canon(params.get('deformation_kwargs') or {}))
    # positional form of PauliErrorModel(r_x, r_y, r_z, deformation_name,
    # deformation_kwargs): 3, 4 or 5 entries
    return (params[0], params[1], params[2],
            params[3] if len(params) > 3 else None,
            runner.canon((params[4] if len(params) > 4 else None) or {}))


def expected_from_block(block, in_runs=False):
    """Multiset of expected simulation tuples for one ranges block / run."""
    cls = block['code']['name']
    cp = block['code'].get('parameters')
    code_sets = [cp] if (in_runs or isinstance(cp, dict)) else list(cp)
    ep = block['error_model'].get('parameters')
    noise_sets = [ep] if (in_runs or isinstance(ep, dict)) else list(ep)
    dp = block['decoder'].get('parameters', None)
    if dp is None or dp == {} or dp == []:
        dec_sets = [{}]
    elif isinstance(dp, dict):
        dec_sets = [dp]
    else:
        dec_sets = list(dp)
    rates = [block['error_rate']] if in_runs else list(block['error_rate'])
    out = []
    for c, e, d, r in itertools.product(code_sets, noise_sets, dec_sets, rates):
        out.append((cls, tuple(resolve_size(cls, c)), resolve_noise(e),
                    block['decoder']['name'], runner.canon(d), float(r)))
    return out


def actual_tuple(sim, gen_dec_keys):
    code = sim.code
    em = sim.error_model
    p = em.params
    dparams = {k: v for k, v in sim.decoder.params.items() if k in gen_dec_keys}
    return (type(code).__name__, tuple(code.size),
            (p['r_x'], p['r_y'], p['r_z'], p.get('deformation_name'),
             runner.canon(p.get('deformation_kwargs') or {})),
            type(sim.decoder).__name__, dparams, float(sim.error_rate))


def eval_case(case):
    fails = []

    def fail(rel, detail):
        if len(fails) < 5:
            fails.append({'relation': rel, 'detail': detail})

    if case['kind'] == 'registry':
        from panqec import config
        reg = {'CODES': config.CODES, 'DECODERS': config.DECODERS,
               'ERROR_MODELS': config.ERROR_MODELS}[case['registry']]
        n = 0
        for key, val in sorted(reg.items()):
            n += 1
            if getattr(val, '__name__', None) != key:
                fail('registry_name_resolves_to_class',
                     f"{case['registry']}['{key}'] is {getattr(val, '__name__', val)}")
        # the documented way to add a class of one's own: after
        # register_*(cls) the class is found under its own name
        reg_fn = {'CODES': config.register_code, 'DECODERS': config.register_decoder,
                  'ERROR_MODELS': config.register_error_model}[case['registry']]
        base = {'CODES': config.CODES['Toric2DCode'], 'DECODERS': config.DECODERS['MatchingDecoder'],
                'ERROR_MODELS': config.ERROR_MODELS['PauliErrorModel']}[case['registry']]
        mine = type('MyVerif' + case['registry'].title().replace('_', ''), (base,), {})
        before = dict(reg)
        reg_fn(mine)
        if reg.get(mine.__name__) is not mine:
            added = sorted(k for k in reg if k not in before or reg[k] is not before[k])
            fail('registered_class_found_under_its_name',
                 f"after {reg_fn.__name__}({mine.__name__}) the registry has no entry "
                 f"'{mine.__name__}'; changed entries: {added}")
        for k in list(reg):
            if k not in before:
                del reg[k]
            elif reg[k] is not before[k]:
                reg[k] = before[k]
        n += 1
        import panqec.codes as pc
        if case['registry'] == 'CODES':
            for name in domain.CODE_CLASSES:
                if name not in reg:
                    fail('registry_complete', f'exported code class {name} is not registered')
                elif reg[name] is not getattr(pc, name):
                    pass    # already reported above through __name__
        return {'fails': fails, 'nontrivial': True, 'labels': ['registry'], 'evals': n,
                'nontrivial_keys': [f"{case['registry']}:{k}" for k in reg]}

    from panqec.simulation import read_input_dict, expand_input_ranges
    from panqec.simulation._batch_simulation import get_runs
    from panqec import config
    spec = case['spec']
    out = os.path.join(runner.scratch_dir('c13'), f'out_{os.getpid()}.json')
    expected = []
    if 'runs' in spec:
        for run in spec['runs']:
            expected += expected_from_block(run, in_runs=True)
    if 'ranges' in spec:
        blocks = spec['ranges'] if isinstance(spec['ranges'], list) else [spec['ranges']]
        for b in blocks:
            expected += expected_from_block(b)
    spec_copy = json.loads(json.dumps(spec))
    batch = read_input_dict(spec_copy, out, verbose=False)
    sims = list(batch._simulations)
    # compare as multisets; decoder params: only the generated keys
    act = []
    for sim in sims:
        keys = set()
        for exp in expected:
            if exp[3] == type(sim.decoder).__name__:
                keys |= set(json.loads(exp[4]).keys())
        t = actual_tuple(sim, keys)
        act.append(t)

    def norm(t):
        return (t[0], t[1], tuple(float(x) if isinstance(x, (int, float)) else x for x in t[2]),
                t[3], None, t[5])
    exp_keys = collections.Counter(norm(e) for e in expected)
    act_keys = collections.Counter(norm(a) for a in act)
    # the same dict object read a second time (a notebook cell run again):
    # reading a specification must not change what it requests
    if case.get('reread', True):
        batch2 = read_input_dict(spec_copy, out, verbose=False)
        act2 = collections.Counter()
        for sim in batch2._simulations:
            act2[norm(actual_tuple(sim, set()))] += 1
        if act2 != act_keys:
            fail('second_read_of_same_dict_identical',
                 f'{len(sims)} simulations on the first read_input_dict of a dict, '
                 f'{len(batch2._simulations)} on the second; '
                 f'lost {list((act_keys - act2).elements())[:2]}, gained {list((act2 - act_keys).elements())[:2]}')
    if exp_keys != act_keys:
        missing = list((exp_keys - act_keys).elements())[:3]
        extra = list((act_keys - exp_keys).elements())[:3]
        fail('expansion_is_cartesian_product',
             f'{len(sims)} simulations built, {len(expected)} requested; '
             f'missing {missing}; unexpected {extra}')
    else:
        # decoder parameters, matched greedily within identical keys
        pool = collections.defaultdict(list)
        for e in expected:
            pool[norm(e)].append(json.loads(e[4]))
        for a in act:
            want_list = pool[norm(a)]
            got = a[4]
            hit = None
            for w in want_list:
                if all(got.get(k) == v for k, v in w.items()):
                    hit = w
                    break
            if hit is None:
                fail('decoder_parameters', f'{a[3]} built with {got}, requested one of {want_list[:3]}')
                break
            want_list.remove(hit)
    # a decoder made of other decoders hands its own settings down to them
    from panqec.decoders import BaseDecoder
    for sim in sims:
        top = sim.decoder
        for attr, sub in vars(top).items():
            if not isinstance(sub, BaseDecoder):
                continue
            if sub.code is not top.code or float(sub.error_rate) != float(top.error_rate):
                fail('component_decoder_settings',
                     f'{type(top).__name__}.{attr}: built for another code / error rate '
                     f'({sub.error_rate!r} vs {top.error_rate!r})')
            for key, val in top.params.items():
                if key in sub.params and sub.params[key] != val:
                    fail('component_decoder_settings',
                         f'{type(top).__name__}(..., {key}={val!r}) built its {attr} '
                         f'({type(sub).__name__}) with {key}={sub.params[key]!r}')
    # ... and a BP-OSD decoder builds each of its ldpc decoders (lazily, on the
    # first decode) with the options it was given and reports
    for sim in sims:
        top = sim.decoder
        if type(top).__name__ != 'BeliefPropagationOSDDecoder' or top.code.n > 200:
            continue
        with runner.quiet():
            top.decode(np.zeros(top.code.stabilizer_matrix.shape[0], dtype=int))
        for attr in ('x_decoder', 'z_decoder', 'decoder'):
            sub = getattr(top, attr, None)
            if sub is None:
                continue
            want_method = top.params.get('bp_method', 'minimum_sum')
            if want_method in ('minimum_sum', 'product_sum') and sub.bp_method != want_method:
                fail('component_decoder_settings',
                     f'BeliefPropagationOSDDecoder(bp_method={want_method!r}) built its {attr} '
                     f'with bp_method={sub.bp_method!r}')
            if int(sub.max_iter) != int(top.params['max_bp_iter']):
                fail('component_decoder_settings',
                     f'BeliefPropagationOSDDecoder(max_bp_iter={top.params["max_bp_iter"]!r}) built its '
                     f'{attr} with max_iter={sub.max_iter!r}')
            if int(sub.osd_order) > int(top.params['osd_order']):
                fail('component_decoder_settings',
                     f'BeliefPropagationOSDDecoder(osd_order={top.params["osd_order"]!r}) built its '
                     f'{attr} with osd_order={sub.osd_order!r}')
    # expand_input_ranges / get_runs agree in size
    if 'ranges' in spec and not isinstance(spec['ranges'], list):
        n_exp = len(expand_input_ranges(json.loads(json.dumps(spec['ranges']))))
        n_want = len(expected_from_block(spec['ranges']))
        if n_exp != n_want:
            fail('expand_input_ranges_count', f'{n_exp} != {n_want}')
        total = len(get_runs(json.loads(json.dumps(spec))))
        if total != len(expected):
            fail('count_runs', f'{total} != {len(expected)}')
    # round trip from recorded inputs
    for sim in sims[:case.get('roundtrip', 4)]:
        inp = json.loads(json.dumps(sim._inputs, default=runner._js))
        code2 = config.CODES[inp['code']['name']](**inp['code']['parameters'])
        em2 = config.ERROR_MODELS[inp['error_model']['name']](**inp['error_model']['parameters'])
        dec2 = config.DECODERS[inp['decoder']['name']](
            code2, em2, inp['error_rate'], **inp['decoder']['parameters'])
        same = (type(code2) is type(sim.code) and tuple(code2.size) == tuple(sim.code.size)
                and np.array_equal(gf2.to_dense(code2.stabilizer_matrix),
                                   gf2.to_dense(sim.code.stabilizer_matrix))
                and np.array_equal(code2.logicals_x, sim.code.logicals_x)
                and np.array_equal(code2.logicals_z, sim.code.logicals_z))
        if not same:
            fail('roundtrip_code', f"{inp['code']} does not rebuild {type(sim.code).__name__}{sim.code.size}")
        if runner.canon(em2.params) != runner.canon(sim.error_model.params):
            fail('roundtrip_noise', f'{em2.params} != {sim.error_model.params}')
        if type(dec2) is not type(sim.decoder) or \
                runner.canon(dec2.params) != runner.canon(sim.decoder.params):
            fail('roundtrip_decoder', f'{type(dec2).__name__}{dec2.params} != '
                 f'{type(sim.decoder).__name__}{sim.decoder.params}')
        if inp['code']['name'] != type(sim.code).__name__:
            fail('recorded_code_name', f"recorded {inp['code']['name']} for {type(sim.code).__name__}")
    axes = case.get('axes', [1])
    nt = sum(1 for a in axes if a >= 2) >= 2
    form = 'runs' if 'runs' in spec else ('ranges-list' if isinstance(spec.get('ranges'), list) else 'ranges')
    for f in fails:
        f['sig'] = {'bucket': form}
    return {'fails': fails, 'nontrivial': nt, 'labels': [form, f'sims={min(len(sims) // 10 * 10, 100)}+'],
            'evals': max(1, len(sims))}


# ---------------------------------------------------------------------------
# grammar

@st.composite
def code_param_set(draw, cls, positional):
    dim = domain.DIM[cls]
    top = 3 if dim == 3 else 4
    Ls = [draw(st.integers(2, top)) for _ in range(dim)]
    if cls == 'RotatedToric3DCode':
        Ls[0] = Ls[1] = 2
    k = draw(st.integers(1, dim))
    if positional:
        return Ls[:k]
    # any subset of the optional keys, in any key order (L_x is required)
    names = ['L_x', 'L_y', 'L_z'][:dim]
    keep = ['L_x'] + [nm for nm in names[1:] if draw(st.booleans())]
    if cls == 'RotatedToric3DCode' and 'L_y' not in keep:
        keep.append('L_y')          # keep L_x, L_y even (see above)
    keep = draw(st.permutations(keep))
    return {nm: Ls[names.index(nm)] for nm in keep}


@st.composite
def noise_param_set(draw, cls, positional):
    r = draw(st.sampled_from([(1, 0, 0), (0, 0, 1), (0.5, 0, 0.5), (1 / 3, 1 / 3, 1 / 3),
                              (0.2, 0.3, 0.5), (0.1, 0.1, 0.8), (0.25, 0.25, 0.5)]))
    names = domain.get_class(cls).deformation_names
    if positional:
        out = list(r)
        if names and draw(st.booleans()):
            out.append(draw(st.sampled_from(names)))
            if out[-1] == 'XZZX' and draw(st.booleans()):
                out.append({'deformation_axis': draw(st.sampled_from(domain.AXES[cls]))})
            elif draw(st.booleans()):
                out.append({})
        return out
    d = {'r_x': r[0], 'r_y': r[1], 'r_z': r[2]}
    if names and draw(st.booleans()):
        d['deformation_name'] = draw(st.sampled_from(names))
        if d['deformation_name'] == 'XZZX' and draw(st.booleans()):
            d['deformation_kwargs'] = {'deformation_axis': draw(st.sampled_from(domain.AXES[cls]))}
    return d


@st.composite
def decoder_block(draw, cls, in_runs):
    name = draw(st.sampled_from(DEC_FOR[cls]))
    block = {'name': name}
    options = {
        'BeliefPropagationOSDDecoder': [{'max_bp_iter': 10, 'osd_order': 0},
                                        {'max_bp_iter': 1000, 'osd_order': 10},
                                        {'channel_update': True}, {'osd_order': 3},
                                        {'bp_method': 'product_sum'},
                                        {'max_bp_iter': 5, 'osd_order': 2, 'bp_method': 'product_sum'}],
        'MatchingDecoder': [{'error_type': 'X'}, {'error_type': 'Z'}, {'error_type': None}],
        'RotatedSweepMatchDecoder': [{'max_rounds': 4}, {'max_rounds': 8}, {'max_rounds': 1}],
        'MemoryBeliefPropagationDecoder': [{'max_bp_iter': 2}, {'max_bp_iter': 3, 'alpha': 0.5},
                                           {'max_bp_iter': 2, 'beta': 0.5},
                                           {'max_bp_iter': 2, 'alpha': 0.3, 'beta': 0.25}],
    }.get(name, [])
    form = draw(st.sampled_from(['absent', 'empty', 'dict', 'list'] if not in_runs
                                else ['absent', 'empty', 'dict']))
    n = 1
    if form == 'empty' or (form in ('dict', 'list') and not options):
        block['parameters'] = {}
    elif form == 'dict':
        block['parameters'] = dict(draw(st.sampled_from(options)))
    elif form == 'list':
        chosen = draw(st.lists(st.sampled_from(options), min_size=1, max_size=3, unique_by=runner.canon))
        block['parameters'] = [dict(c) for c in chosen]
        n = len(chosen)
    return block, n


@st.composite
def ranges_block(draw):
    cls = draw(st.sampled_from(sorted(DEC_FOR)))
    pos_c = draw(st.booleans())
    pos_e = draw(st.booleans())
    nc = draw(st.integers(1, 4))
    ne = draw(st.integers(1, 3))
    code_sets = [draw(code_param_set(cls, pos_c)) for _ in range(nc)]
    noise_sets = [draw(noise_param_set(cls, pos_e)) for _ in range(ne)]
    dec, nd = draw(decoder_block(cls, False))
    # incl. the noiseless point alone or with others (0 as float and as int)
    rates = draw(st.lists(st.sampled_from([0.01, 0.05, 0.1, 0.15, 0.2, 0.3, 0.5, 0.0, 0, 1, 1.0]),
                          min_size=1, max_size=5))
    block = {'code': {'name': cls, 'parameters': code_sets},
             'error_model': {'name': 'PauliErrorModel', 'parameters': noise_sets},
             'decoder': dec, 'error_rate': rates}
    if draw(st.booleans()):
        block['label'] = draw(st.sampled_from(['exp', 'test_range', 'a b']))
    if draw(st.booleans()):
        block['method'] = {'name': 'direct', 'parameters': {}}
    return block, [nc, ne, nd, len(rates)]


@st.composite
def run_block(draw):
    cls = draw(st.sampled_from(sorted(DEC_FOR)))
    dec, _ = draw(decoder_block(cls, True))
    return {'label': 'single', 'code': {'name': cls, 'parameters': draw(code_param_set(cls, False))},
            'error_model': {'name': 'PauliErrorModel',
                            'parameters': draw(noise_param_set(cls, False))},
            'decoder': dec, 'error_rate': draw(st.sampled_from([0.05, 0.1, 0.3, 0.0, 0, 1.0]))}


@st.composite
def spec_cases(draw):
    form = draw(st.sampled_from(['ranges', 'ranges', 'ranges-list', 'runs']))
    spec = {'comments': 'generated'}
    axes = [1]
    if form == 'ranges':
        spec['ranges'], axes = draw(ranges_block())
    elif form == 'ranges-list':
        blocks = draw(st.lists(ranges_block(), min_size=1, max_size=3))
        spec['ranges'] = [b for b, _ in blocks]
        axes = max((a for _, a in blocks), key=lambda a: sum(1 for x in a if x >= 2))
    else:
        runs = draw(st.lists(run_block(), min_size=1, max_size=5))
        spec['runs'] = runs
        axes = [len(runs), len(runs)]
    return {'kind': 'spec', 'spec': spec, 'axes': axes, 'roundtrip': 3}


def run(ctx):
    quick = ctx.tier == 'quick'
    ctx.run_cases([{'kind': 'registry', 'registry': r}
                   for r in ('CODES', 'DECODERS', 'ERROR_MODELS')], serial=True)
    ctx.run_hypothesis('spec_cases', 480 if quick else 30000)
    import shutil
    shutil.rmtree(runner.scratch_dir('c13'), ignore_errors=True)
