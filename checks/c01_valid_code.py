"""C01 - every library code is a valid [[n,k]] stabilizer code."""
import numpy as np

from vf import domain, gf2

PROPERTY = 'C01'
LEVEL = 'exploration'
RULE = ('(class, size, deformation name, axis kwarg) enumerated exhaustively '
        'over the supported size family up to a bound (DESIGN 0.1) and drawn '
        'by Hypothesis above it, biased to non-cubic / mixed-parity sizes; '
        'non-trivial = n-k >= 2 and at least two generators share a qubit; '
        'distinct = distinct 4-tuple')
ASSUMPTIONS = [
    'supported size family per class as tabulated in DESIGN.md section 0.1',
    'oracle: own int64 / Python-int GF(2) algebra (vf/gf2.py) on the dense '
    'image of stabilizer_matrix, logicals_x, logicals_z',
]
MANIFEST_ENTRY = {
    'technique': 'exhaustive enumeration of the size family up to a bound x all '
                 'deformations/axes + Hypothesis for larger sizes; independent '
                 'GF(2) symplectic / rank oracle',
    'level_text': 'Every family member up to the bound is built and all '
                  'commutation relations, the canonical logical pairing, '
                  'rank H = n-k and rank [H;Lx;Lz] = n+k are recomputed with '
                  'independent algebra; larger sizes are sampled. Geometry is '
                  'translation invariant with parity-dependent branches, so '
                  'small exhaustive boxes reach every parity/rectangularity '
                  'class.',
    'level_note': 'Sizes above the bound are sampled only; the size family is '
                  'the one documented in DESIGN.md 0.1.',
}


def code_relations(code, cls=None):
    """All C01 relations on an already built code -> list of fails."""
    fails = []

    def fail(rel, detail):
        fails.append({'relation': rel, 'detail': detail})

    n = code.n
    H = gf2.to_dense(code.stabilizer_matrix)
    Lx = gf2.to_dense(code.logicals_x)
    Lz = gf2.to_dense(code.logicals_z)
    m = H.shape[0]
    if H.shape[1] != 2 * n or Lx.shape[1] != 2 * n or Lz.shape[1] != 2 * n:
        fail('shape', f'H{H.shape} Lx{Lx.shape} Lz{Lz.shape} n={n}')
        return fails, {}
    if Lx.shape != Lz.shape:
        fail('shape', f'Lx{Lx.shape} != Lz{Lz.shape}')
        return fails, {}
    k = Lx.shape[0]
    if k < 1:
        fail('k>=1', f'k={k}')
    if code.k != k:
        fail('k_attr', f'code.k={code.k} but {k} logical pairs')
    raw = code.stabilizer_matrix
    vals = np.unique(np.asarray(raw.toarray() if hasattr(raw, 'toarray') else raw))
    if not set(vals.tolist()) <= {0, 1}:
        fail('binary', f'H has entries {vals.tolist()}')

    HH = gf2.symp_matrix(H, H)
    if HH.any():
        i, j = np.argwhere(HH)[0]
        fail('stabilizers_commute',
             f'{int(HH.sum()) // 2} anticommuting generator pairs, e.g. '
             f'{code.stabilizer_coordinates[i]} / {code.stabilizer_coordinates[j]}')
    for name, L in (('X', Lx), ('Z', Lz)):
        P = gf2.symp_matrix(H, L)
        if P.any():
            i, j = np.argwhere(P)[0]
            fail(f'logical_{name}_commutes_with_stabilizers',
                 f'logical {name}_{j} anticommutes with {int(P[:, j].sum())} '
                 f'generators, e.g. {code.stabilizer_coordinates[i]}')
    P = gf2.symp_matrix(Lx, Lz)
    if not np.array_equal(P, np.eye(k, dtype=P.dtype)):
        fail('logical_pairing', f'Lx Omega Lz^T = {P.tolist()} != identity')
    for name, L in (('X', Lx), ('Z', Lz)):
        P = gf2.symp_matrix(L, L)
        if P.any():
            fail(f'logical_{name}{name}_commute', f'{P.tolist()}')
    hrows = gf2.rows_to_ints(H)
    rH = gf2.rank(hrows)
    if rH != n - k:
        fail('rank', f'rank H = {rH}, n-k = {n}-{k} = {n - k}')
    rAll = gf2.rank(hrows + gf2.rows_to_ints(Lx) + gf2.rows_to_ints(Lz))
    if rAll != rH + 2 * k:
        fail('logicals_independent',
             f'rank [H;Lx;Lz] = {rAll}, expected rank H + 2k = {rH + 2 * k}')
    supp = ((H[:, :n] + H[:, n:]) > 0)
    overlap = bool((supp.sum(axis=0) >= 2).any())
    info = {'n': n, 'k': k, 'm': m, 'overlap': overlap}
    return fails, info


def case_sig(case):
    """Signature used to match known findings (computed from the case)."""
    cls, size = case['cls'], tuple(case['size'])
    sig = {'class': cls, 'rect': len(set(size)) > 1,
           'deformed': case.get('deformation') is not None}
    if len(size) == 2:
        sig['shape'] = ('Lx<Ly' if size[0] < size[1] else
                        'Lx>Ly' if size[0] > size[1] else 'square')
    if cls == 'HollowRhombicCode':
        Lx, Ly, Lz = size
        # hole is a single layer thick in one direction and at least five
        # layers wide in both others
        sig['slab_hole'] = bool(
            (Lx == 3 and Ly >= 6 and Lz >= 6) or
            (Ly == 4 and Lx >= 5 and Lz >= 6) or
            (Lz == 4 and Lx >= 5 and Ly >= 6))
    return sig


def eval_case(case):
    cls, size = case['cls'], tuple(case['size'])
    code = domain.build_from_case(case)
    fails, info = code_relations(code, cls)
    sig = case_sig(case)
    if not fails and info:
        # the object as a simulation holds it: its summary (n, k, d, label,
        # parameters) has been read before the matrices are used
        code2 = domain.build_from_case(case)
        try:
            _ = (code2.id, code2.params, code2.label, code2.n, code2.k, code2.d)
        except Exception:        # noqa: d needs the logicals; reported by the relations above
            code2 = None
        if code2 is not None:
            same = all(np.array_equal(np.asarray(getattr(code, a)), np.asarray(getattr(code2, a)))
                       for a in ('logicals_x', 'logicals_z')) and \
                np.array_equal(gf2.to_dense(code.stabilizer_matrix), gf2.to_dense(code2.stabilizer_matrix))
            if not same:
                more, _ = code_relations(code2, cls)
                fails = [dict(f, detail='after reading n, k, d: ' + f['detail']) for f in more] or \
                    [{'relation': 'summary_read_changes_code',
                      'detail': 'reading n, k, d changed the logical operators / stabilizer matrix '
                                'the object hands out'}]
    if not fails and info and case.get('deformation') is not None:
        # ... and the object a user gets who looked at the undeformed code
        # (its summary, its logical operators) before deforming it
        code3 = domain.build_code(cls, size)
        try:
            _ = (code3.n, code3.k, code3.d, code3.logicals_x, code3.logicals_z, code3.stabilizer_matrix)
        except Exception:        # noqa: reported for the undeformed case of this size
            code3 = None
        if code3 is not None:
            code3.deform(case['deformation'], **(case.get('kwargs') or {}))
            same = all(np.array_equal(np.asarray(getattr(code, a)), np.asarray(getattr(code3, a)))
                       for a in ('logicals_x', 'logicals_z')) and \
                np.array_equal(gf2.to_dense(code.stabilizer_matrix), gf2.to_dense(code3.stabilizer_matrix))
            if not same:
                more, _ = code_relations(code3, cls)
                fails = [dict(f, detail='deformed after its undeformed operators were read: ' + f['detail'])
                         for f in more] or \
                    [{'relation': 'deform_after_read_changes_code',
                      'detail': 'a code deformed after its undeformed operators were read hands out '
                                'other operators than one deformed straight away'}]
    for f in fails:
        f['sig'] = dict(sig)
        f['detail'] = f'{cls}{size} {case.get("deformation")} ' \
                      f'{case.get("kwargs")}: ' + f['detail']
    labels = [cls, 'rect' if sig['rect'] else 'cubic',
              'deformed' if sig['deformed'] else 'undeformed']
    par = {L % 2 for L in size}
    labels.append('parity:' + ('mixed' if len(par) > 1 else
                               ('odd' if par == {1} else 'even')))
    nt = bool(info) and info['n'] - info['k'] >= 2 and info['overlap']
    return {'fails': fails, 'nontrivial': nt, 'labels': labels}


def hyp_cases(max_L, max_L_2d, max_color, max_n):
    return domain.code_cases(max_L=max_L, max_L_2d=max_L_2d,
                             max_color=max_color, max_n=max_n)


def run(ctx):
    if ctx.tier == 'quick':
        cases = domain.all_code_cases(4, 6, 5, max_n=700, thin=True)
        # the hollow lattices have size-dependent hole geometry in every
        # direction: all (also non-cubic) sizes up to 6
        have = {(c['cls'], tuple(c['size']), c['deformation'], str(c['kwargs'])) for c in cases}
        cases += [c for c in domain.all_code_cases(6, 6, 1, max_n=900, thin=True,
                                                   classes=['HollowRhombicCode', 'HollowPlanar3DCode'])
                  if (c['cls'], tuple(c['size']), c['deformation'], str(c['kwargs'])) not in have]
        ctx.run_cases(cases, chunk=8)
        ctx.run_hypothesis('hyp_cases', 160, max_L=7, max_L_2d=12,
                           max_color=4, max_n=1200)
    else:
        cases = domain.all_code_cases(7, 16, 5, max_n=5000, thin=True)
        ctx.run_cases(cases, chunk=4)
        ctx.run_hypothesis('hyp_cases', 2400, max_L=10, max_L_2d=24,
                           max_color=6, max_n=6000)
    ctx.exhaustive = True
    ctx.note('enumerated_cases', len(cases))
