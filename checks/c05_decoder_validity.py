"""C05 - decoders return valid corrections that reproduce the syndrome."""
import json
import os

import numpy as np

from vf import decoding, domain, gf2

PROPERTY = 'C05'
LEVEL = 'exploration'
RULE = ('Hypothesis draws (decoder, code class from allowed_codes resolved '
        'through the class objects or config.CODES, size, code deformation '
        'for BP-OSD/MBP, decoder parameters, noise direction, noise '
        'deformation, error rate) and a batch of errors (random i.i.d. at six '
        'rates incl. the sparse regime, the zero error) decoded on ONE reused '
        'decoder object; enumerated batches: all 4^n errors on n <= 6 and all '
        'weight-1 / sampled weight-2 errors on n <= 40 for the complete '
        'decoders. Non-trivial = a non-zero syndrome decoded on an object '
        'that has already decoded a different non-zero syndrome; distinct = '
        'distinct (setup, syndrome)')
ASSUMPTIONS = [
    'matching / union-find / sweep-match / X-cube decoders are exercised on '
    'undeformed codes (they read Hx/Hz, which a Clifford-deformed non-CSS '
    'code does not have) with plain or deformed noise; BP-OSD and MBP also '
    'on deformed and Clifford-scrambled non-CSS codes',
    'third-party libraries (PyMatching, ldpc) are black boxes',
    '"any Pauli error" includes errors of probability zero under the '
    'configured noise',
]
MANIFEST_ENTRY = {
    'technique': 'Hypothesis over decoder setups with batches decoded on a '
                 'reused decoder object + enumerated small-code batches and an '
                 'enumerated BP-OSD corner grid (rate end points as float and '
                 'int, simplex vertices / edges, Bayes update); the '
                 'command-line BP-OSD options run in an interpreter of their '
                 'own (a dead interpreter is a violation); oracle = own '
                 'syndrome computation H Omega c == s',
    'level_text': 'Every returned correction is checked for format and, for '
                  'the complete decoders, for reproducing the measured '
                  'syndrome exactly (own algebra), on reused decoder objects '
                  'as simulations use them; the zero syndrome must give the '
                  'zero correction.',
    'level_note': 'Larger codes and error weights are sampled; incomplete '
                  'decoders are checked for format/no-raise (and the matching '
                  'half of sweep-match for its sector).',
}


_CHILD = r'''
import sys, json, io, contextlib, os
sys.path.insert(0, sys.argv[1]); sys.path.insert(0, sys.argv[2])
case = json.loads(sys.argv[3])
with contextlib.redirect_stdout(io.StringIO()):
    from checks import c05_decoder_validity as c
    res = c.eval_case(case)
sys.stdout.write("\nRESULT " + json.dumps({k: res[k] for k in ("fails", "labels", "evals", "nontrivial_keys")}) + "\n")
sys.stdout.flush()
'''


def isolated(case):
    """Run the case in an interpreter of its own: a decoder that corrupts
    memory takes its process down (or only at exit), which is a violation of
    'returns ... without raising', not a harness error."""
    import subprocess
    import sys
    from vf import runner
    env = dict(os.environ, C05_CHILD='1')
    p = subprocess.run([sys.executable, '-W', 'ignore', '-c', _CHILD, runner.REPO,
                        runner.VERIF_DIR, json.dumps(case)],
                       env=env, capture_output=True, text=True, timeout=1800)
    res = None
    for line in p.stdout.splitlines():
        if line.startswith('RESULT '):
            res = json.loads(line[7:])
    if p.returncode != 0:
        tag = f"{case['decoder']}{case.get('dparams')} on {case['code'].get('cls')}{case['code'].get('size')}"
        how = (f'killed by signal {-p.returncode}' if p.returncode < 0 else f'exit status {p.returncode}')
        when = 'after returning its corrections' if res is not None else 'while decoding'
        msg = [ln for ln in p.stderr.strip().splitlines() if ln.strip()][-1:] or ['']
        if res is None and 'Traceback' in p.stderr and p.returncode == 1 and 'Error' in msg[0] \
                and 'MemoryError' not in msg[0]:
            raise runner.HarnessError('isolated child failed: ' + p.stderr[-600:])
        return {'fails': [{'relation': 'decoder_crashes_interpreter',
                           'detail': f'{tag}: the interpreter running the decoder ended with {how} '
                                     f'{when}: {msg[0][:200]}', 'sig': {'decoder': case['decoder']}}],
                'nontrivial': False, 'nontrivial_keys': [], 'labels': [case['decoder'], 'isolated'],
                'evals': 1}
    if res is None:
        raise runner.HarnessError('isolated child printed no result: ' + p.stderr[-400:])
    res['labels'] = res['labels'] + ['isolated']
    res['nontrivial'] = False
    return res


def eval_case(case):
    if case.get('isolated') and not os.environ.get('C05_CHILD'):
        return isolated(case)
    fails = []

    def fail(rel, detail):
        if len(fails) < 5:
            fails.append({'relation': rel, 'detail': detail})

    name = case['decoder']
    code, em, dec = decoding.build(case)
    n = code.n
    H = gf2.to_dense(code.stabilizer_matrix)
    m = H.shape[0]
    rng = np.random.default_rng(case['rseed'])
    errors = decoding.errors_for(case, code, rng)
    xrows = (H[:, :n].sum(axis=1) > 0)      # X-type generators (detect Z errors)
    zrows = (H[:, n:].sum(axis=1) > 0)
    et = (case.get('dparams') or {}).get('error_type')
    # matching is maximum-likelihood: with a flip marginal of 1/2 or more the
    # weights turn non-positive and the likeliest explanation of the trivial
    # syndrome need not be the trivial one; the clause is checked below 1/2
    ml_trivial = True
    if name == 'MatchingDecoder' and case['code'].get('kind') != 'scrambled':
        from checks.c07_noise_model import expected_table
        t_ = expected_table(code, case['direction'], float(case['error_rate']),
                            case.get('noise_deformation'), case.get('noise_kwargs') or {})
        ml_trivial = max(float((t_['X'] + t_['Y']).max()), float((t_['Z'] + t_['Y']).max())) < 0.5 - 1e-9
    seen = set()
    nt_keys = []
    tag = f"{name}{case.get('dparams')} on {case['code'].get('cls', 'scrambled')}" \
          f"{case['code'].get('size', '')} {case['code'].get('deformation')}"
    for j, e in enumerate(errors):
        s = decoding.own_syndrome(H, e)
        lib_s = np.asarray(code.measure_syndrome(e))
        # callers hand syndromes over in several integer dtypes (the library's
        # own uint8, the GUI's int64 from JSON)
        which = (case['rseed'] + j) % 3
        if which == 1:
            lib_s = lib_s.astype(np.int64)
        elif which == 2:
            lib_s = np.array([int(v) for v in lib_s])
        c = dec.decode(lib_s)
        c = np.asarray(c)
        if c.shape != (2 * n,):
            fail('correction_shape', f'{tag}: shape {c.shape} != ({2 * n},)')
            break
        vals = set(np.unique(c).tolist())
        if not vals <= {0, 1}:
            fail('correction_binary', f'{tag}: entries {sorted(vals)[:5]}')
            break
        key = s.tobytes()
        if s.any() and any(k != key for k in seen) and len(nt_keys) < 200:
            nt_keys.append(f'{tag}:{gf2.row_to_int(s):x}')
        if s.any():
            seen.add(key)
        cs = decoding.own_syndrome(H, c)
        if name in decoding.COMPLETE:
            if et is None:
                ok = np.array_equal(cs, s)
                zero_ok = bool(s.any()) or not c.any()
            elif et == 'X':      # X errors are seen by Z-type generators
                ok = np.array_equal(cs[zrows], s[zrows]) and not c[n:].any()
                zero_ok = bool(s[zrows].any()) or not c.any()
            else:
                ok = np.array_equal(cs[xrows], s[xrows]) and not c[:n].any()
                zero_ok = bool(s[xrows].any()) or not c.any()
            if not ok:
                fail('correction_reproduces_syndrome',
                     f'{tag}: error #{j} {np.nonzero(e)[0].tolist()} (after '
                     f'{j} decodes on the same object): correction has syndrome '
                     f'{np.nonzero(cs)[0].tolist()}, measured {np.nonzero(s)[0].tolist()}')
                break
            if not zero_ok and ml_trivial:
                fail('trivial_syndrome_trivial_correction',
                     f'{tag}: zero syndrome (decode #{j}) returned correction '
                     f'{np.nonzero(c)[0].tolist()}')
                break
        elif name in ('SweepMatchDecoder', 'RotatedSweepMatchDecoder'):
            # matching half: X part of the correction reproduces the vertex
            # (Z-type generator) syndrome
            cx = c.copy()
            cx[n:] = 0
            if not np.array_equal(decoding.own_syndrome(H, cx)[zrows], s[zrows]):
                fail('sweepmatch_x_sector', f'{tag}: error #{j}')
                break
    for f in fails:
        f['sig'] = {'decoder': name}
    labels = [name, 'registry' if case.get('via_registry') else 'class',
              'css' if not (xrows & zrows).any() else 'noncss',
              case['errors']]
    return {'fails': fails, 'nontrivial': False, 'nontrivial_keys': nt_keys,
            'labels': labels, 'evals': len(errors)}


def case_sig(case):
    size = case.get('code', {}).get('size') or [0, 0]
    return {'decoder': case.get('decoder'),
            'code_class': case.get('code', {}).get('cls'),
            'xy_parity': 'mixed' if size[0] % 2 != size[1] % 2 else 'same',
            'via_registry': bool(case.get('via_registry'))}


def hyp_cases(n_errors=40, decoders=None):
    return decoding.decoder_cases(n_errors=n_errors, decoders=decoders)


def enumerated(seed, quick):
    out = []
    base = {'direction': [1 / 3, 1 / 3, 1 / 3], 'noise_deformation': None,
            'noise_kwargs': {}, 'error_rate': 0.1}
    tiny = [('RotatedPlanar2DCode', (2, 2)), ('RotatedPlanar2DCode', (2, 3)),
            ('RotatedPlanar2DCode', (3, 2)), ('Planar2DCode', (2, 2))]
    i = 0
    for cls, size in tiny:
        for dec, dps in (('MatchingDecoder', [{}]),
                         ('BeliefPropagationOSDDecoder',
                          [{'osd_order': 0}, {'osd_order': 10, 'channel_update': True}])):
            for dp in dps:
                for direction in ([1 / 3, 1 / 3, 1 / 3], [0.05, 0.05, 0.9]):
                    i += 1
                    out.append(dict(base, decoder=dec, dparams=dp, direction=direction,
                                    code=domain.code_case(cls, size), errors='exhaustive',
                                    rseed=seed * 1000 + i))
    mid = [('Toric2DCode', (2, 2)), ('Toric2DCode', (3, 3)), ('Toric2DCode', (2, 4)),
           ('Planar2DCode', (3, 3)), ('Planar2DCode', (2, 4)), ('RotatedPlanar2DCode', (4, 4)),
           ('RotatedPlanar2DCode', (3, 5)), ('RotatedPlanar2DCode', (5, 5))]
    for cls, size in mid:
        decs = ['MatchingDecoder', 'BeliefPropagationOSDDecoder']
        if cls == 'Toric2DCode':
            decs.append('UnionFindDecoder')
        for dec in decs:
            i += 1
            out.append(dict(base, decoder=dec, dparams={}, code=domain.code_case(cls, size),
                            errors='weight12', n_errors=150 if quick else 1500,
                            rseed=seed * 1000 + i))
    # union-find on larger tori at moderate rates (deep cluster-merge
    # histories only arise there), several independent error batches
    for size in ((7, 7), (8, 8), (9, 7), (10, 10), (6, 11)):
        for shard in range(4 if quick else 24):
            i += 1
            out.append(dict(base, decoder='UnionFindDecoder', dparams={},
                            code=domain.code_case('Toric2DCode', size), errors='random',
                            rates=[0.1, 0.2, 0.15, 0.2], n_errors=16 if quick else 40,
                            rseed=seed * 1000 + i))
    # BP-OSD at the corners of its parameter space: rate at the end points
    # and 1/2, noise on the vertices and edges of the direction simplex (zero
    # and one channel probabilities), with and without the Bayes update
    for cls, size in (('RotatedPlanar2DCode', (2, 2)), ('Planar2DCode', (2, 2))):
        for cu in (False, True):
            # (0 and 1 also as Python ints, as a hand-written input file or
            # a call like run_once(..., error_rate=1) hands them over)
            for rate in (0.0, 1.0, 0.5, 0, 1):
                for direction in domain.DIRECTION_POOL[:6]:
                    for nd in (None, 'XZZX'):
                        i += 1
                        out.append(dict(base, decoder='BeliefPropagationOSDDecoder',
                                        dparams={'osd_order': 0, 'max_bp_iter': 10,
                                                 'channel_update': cu},
                                        direction=[float(x) for x in direction],
                                        noise_deformation=nd, error_rate=rate,
                                        code=domain.code_case(cls, size), errors='weight12',
                                        n_errors=12 if quick else 60, rseed=seed * 1000 + i))
    # the matching-based decoders at the same corners (weights at and beyond
    # the ends of the log-likelihood scale)
    for dec, cls, size in (('MatchingDecoder', 'RotatedPlanar2DCode', (2, 2)),
                           ('MatchingDecoder', 'Toric2DCode', (3, 3)),
                           ('MatchingDecoder', 'Planar2DCode', (2, 3)),
                           ('SweepMatchDecoder', 'Toric3DCode', (2, 2, 2)),
                           ('RotatedSweepMatchDecoder', 'RotatedPlanar3DCode', (2, 2, 2)),
                           ('XCubeMatchingDecoder', 'XCubeCode', (2, 2, 2)),
                           ('UnionFindDecoder', 'Toric2DCode', (3, 3))):
        for rate in (0.0, 1.0, 0, 1, 0.5, 0.999999):
            for direction in domain.DIRECTION_POOL[:6]:
                for nd in (None, 'XZZX'):
                    if quick and (i % 2) and nd:
                        i += 1
                        continue
                    i += 1
                    out.append(dict(base, decoder=dec, dparams={},
                                    direction=[float(x) for x in direction],
                                    noise_deformation=nd, error_rate=rate,
                                    code=domain.code_case(cls, size), errors='weight12',
                                    n_errors=8 if quick else 40, rseed=seed * 1000 + i))
    # syndromes with 255 ... 257 and 512 defects in one sector on lattices
    # large enough to have them
    for dec, cls, size in (('MatchingDecoder', 'Toric2DCode', (16, 16)),
                           ('MatchingDecoder', 'Toric2DCode', (16, 17)),
                           ('MatchingDecoder', 'Planar2DCode', (17, 17)),
                           ('MatchingDecoder', 'RotatedPlanar2DCode', (23, 23)),
                           ('BeliefPropagationOSDDecoder', 'Toric2DCode', (16, 16))) + (
            () if quick else (('MatchingDecoder', 'Toric2DCode', (23, 23)),
                              ('UnionFindDecoder', 'Toric2DCode', (16, 16)))):
        i += 1
        out.append(dict(base, decoder=dec, dparams={'osd_order': 0, 'max_bp_iter': 10}
                        if dec == 'BeliefPropagationOSDDecoder' else {},
                        code=domain.code_case(cls, size), errors='syndrome_weights',
                        syndrome_weights=[254, 256, 512] if quick else [254, 255, 256, 257, 258, 512],
                        rseed=seed * 1000 + i))
    # BP-OSD with the options the command line writes into every input file
    # (generate-input: max_bp_iter 1000, osd_order 100), each in an
    # interpreter of its own
    for cls, size in (('RotatedPlanar2DCode', (2, 2)), ('Toric2DCode', (2, 2)),
                      ('Toric2DCode', (3, 3)), ('Planar2DCode', (3, 3)),
                      ('Toric3DCode', (2, 2, 2)), ('XCubeCode', (2, 2, 2))):
        for order in (100, 40):
            i += 1
            out.append(dict(base, decoder='BeliefPropagationOSDDecoder',
                            dparams={'max_bp_iter': 1000, 'osd_order': order},
                            code=domain.code_case(cls, size), errors='weight12',
                            n_errors=10, rseed=seed * 1000 + i, isolated=True))
    # BP-OSD on deformed (non-CSS) small codes, weight <= 2
    for cls, size, dn in (('Toric2DCode', (2, 3), 'XZZX'), ('RotatedPlanar2DCode', (3, 3), 'XY'),
                          ('Planar2DCode', (2, 3), 'XZZX'), ('RotatedPlanar3DCode', (2, 2, 2), 'XZZX'),
                          ('RotatedToric3DCode', (2, 3, 2), None)):
        i += 1
        out.append(dict(base, decoder='BeliefPropagationOSDDecoder', dparams={'osd_order': 10},
                        code=domain.code_case(cls, size, dn, {}), errors='weight12',
                        n_errors=150 if quick else 1500, rseed=seed * 1000 + i))
    return out


def run(ctx):
    quick = ctx.tier == 'quick'
    ctx.run_cases(enumerated(ctx.seed, quick), chunk=1)
    ctx.run_hypothesis('hyp_cases', 480 if quick else 8000,
                       n_errors=40 if quick else 80)
