"""C10 - sweep decoders track the true residual syndrome."""
import itertools

import numpy as np
from hypothesis import strategies as st

from vf import domain, gf2

PROPERTY = 'C10'
LEVEL = 'exploration'
RULE = ('geometry: every qubit (edge) of Toric3D / Planar3D (SweepDecoder3D) '
        'and RotatedPlanar3D / RotatedToric3D (RotatedSweepDecoder3D) at all '
        'family sizes up to the bound: flip_edge must toggle exactly the face '
        'generators anticommuting with Z on that edge (column of the code\'s '
        'own parity-check matrix). Automaton: all Z errors of weight <= 2 on '
        'small sizes and Hypothesis-drawn random Z errors at several rates '
        'and tie-break seeds; sweep_move is wrapped on the instance and after '
        'every step the tracked pattern is compared with the face syndrome of '
        'error + accumulated correction. Non-trivial = run with >= 2 sweep '
        'steps in which an edge is flipped twice or a tie-break is taken; '
        'geometry: boundary / seam edge; distinct = distinct case / edge')
ASSUMPTIONS = [
    'undeformed codes (the automaton assumes Z errors on X-type faces)',
    'non-termination within the sweep budget is not a violation',
]
MANIFEST_ENTRY = {
    'technique': 'exhaustive geometry enumeration against the parity-check '
                 'matrix + instrumented automaton runs (method wrapped from '
                 'the harness) on enumerated weight<=2 and Hypothesis-drawn Z '
                 'errors under sweep budgets 1, 2, 3, 4, 32; invariant checked '
                 'after every sweep step and at the stop (cleared pattern => '
                 'zero face syndrome of error + returned correction)',
    'level_text': 'Every edge of every lattice up to the bound is checked '
                  'against H; every sweep step of every generated decode is '
                  'checked against the independently recomputed residual face '
                  'syndrome.',
    'level_note': 'Larger lattices and error weights are sampled.',
}

DECODER_FOR = {'Toric3DCode': 'SweepDecoder3D', 'Planar3DCode': 'SweepDecoder3D',
               'RotatedPlanar3DCode': 'RotatedSweepDecoder3D',
               'RotatedToric3DCode': 'RotatedSweepDecoder3D'}


def build(cls, size, seed=0, max_budget=32):
    import panqec.decoders as pd
    from panqec.error_models import PauliErrorModel
    code = domain.build_code(cls, size)
    # the give-up budget is a documented constructor parameter; a smaller one
    # keeps non-terminating runs short (non-termination is not a violation)
    budget = ({'max_rounds': max_budget} if DECODER_FOR[cls] == 'RotatedSweepDecoder3D'
              else {'max_sweep_factor': max_budget})
    dec = getattr(pd, DECODER_FOR[cls])(code, PauliErrorModel(0, 0, 1), 0.1,
                                        seed=seed, **budget)
    return code, dec


def face_rows(code):
    """(H, mask of face generators).  Faces are the generators the lattice
    definition labels 'face' (on the twisted rotated toric lattices a vertex
    generator can carry X on a seam qubit, so the X-part alone does not
    identify faces)."""
    H = gf2.to_dense(code.stabilizer_matrix)
    mask = np.array([code.stabilizer_type(tuple(loc)) == 'face'
                     for loc in code.stabilizer_coordinates], dtype=bool)
    return H, mask


def geometry_case(case, fail):
    cls, size = case['cls'], tuple(case['size'])
    code, dec = build(cls, size)
    n = code.n
    H, faces = face_rows(code)
    m = H.shape[0]
    nt_keys = []
    Lx, Ly, Lz = size
    for q, loc in enumerate(code.qubit_coordinates):
        signs = np.zeros(m, dtype=np.uint8)
        dec.flip_edge(tuple(loc), signs)
        want = (H[:, q] > 0) & faces          # X on q in face r <=> Z_q anticommutes
        got = signs.astype(bool)
        if not np.array_equal(got, want):
            extra = [tuple(code.stabilizer_coordinates[i]) for i in np.nonzero(got & ~want)[0]]
            missing = [tuple(code.stabilizer_coordinates[i]) for i in np.nonzero(want & ~got)[0]]
            f = fail('flip_edge_toggles_adjacent_faces',
                     f'edge {tuple(loc)}: flip_edge toggles {extra} wrongly and misses {missing}')
            seam = any(c in (1, 2 * L - 1, 2 * L) for c, L in zip(loc, size))
            f['sig'] = {'seam_edge': bool(seam or missing or extra)}
            break
        x, y, z = loc
        boundary = (min(x, y, z) <= 1) or x >= 2 * Lx - 1 or y >= 2 * Ly - 1 or z >= 2 * Lz - 1
        if boundary:
            nt_keys.append(f'{cls}{size}:{tuple(loc)}')
    return len(code.qubit_coordinates), nt_keys


def run_decode(code, dec, e, fail):
    """Decode with sweep_move wrapped; check the invariant after every step."""
    n = code.n
    H, faces = face_rows(code)
    qset = set(map(tuple, code.qubit_coordinates))
    state = {'steps': 0, 'twice': False, 'ok': True, 'flips': {}}
    orig = dec.sweep_move
    tie = {'n': 0}
    orig_default = dec.get_default_direction

    def counting_default():
        tie['n'] += 1
        return orig_default()

    def wrapped(signs, correction, *args, **kw):
        before = dict(correction)
        new_signs = orig(signs, correction, *args, **kw)
        state['steps'] += 1
        state['last_signs'] = np.asarray(new_signs).astype(np.int64) % 2
        if not state['ok']:
            return new_signs
        bad_keys = [k for k in correction if tuple(k) not in qset]
        bad_vals = [v for v in correction.values() if v != 'Z']
        if bad_keys or bad_vals:
            fail('correction_is_Z_on_qubits', f'step {state["steps"]}: keys {bad_keys[:2]} values {bad_vals[:2]}')
            state['ok'] = False
            return new_signs
        c = np.zeros(2 * n, dtype=np.int64)
        for k in correction:
            c[n + code.qubit_index[tuple(k)]] ^= 1
        tot = (np.asarray(e).astype(np.int64) + c) % 2
        want = ((H[:, :n] @ tot[n:] + H[:, n:] @ tot[:n]) % 2) * faces
        got = np.asarray(new_signs).astype(np.int64) % 2
        if not np.array_equal(got, want):
            d = np.nonzero(got != want)[0]
            fail('tracked_pattern_is_residual_face_syndrome',
                 f'after sweep step {state["steps"]} the tracked excitations differ from the '
                 f'face syndrome of error+correction on faces '
                 f'{[tuple(code.stabilizer_coordinates[i]) for i in d[:4]]}')
            state['ok'] = False
        return new_signs

    dec.sweep_move = wrapped
    dec.get_default_direction = counting_default
    try:
        s = np.asarray(code.measure_syndrome(e))
        c = np.asarray(dec.decode(s.copy()))
    finally:
        dec.sweep_move = orig
        dec.get_default_direction = orig_default
    if c.shape != (2 * n,) or not set(np.unique(c).tolist()) <= {0, 1}:
        fail('correction_format', f'shape {c.shape}')
        return state, tie['n'], False
    if c[:n].any():
        fail('correction_Z_only', 'returned correction has a non-zero X part')
    tot = (np.asarray(e).astype(np.int64) + c) % 2
    resid = ((H[:, :n] @ tot[n:] + H[:, n:] @ tot[:n]) % 2) * faces
    # "whenever the automaton stops with no excitations left the face
    # syndrome of error+correction is zero" - whatever the budget was
    if state['ok']:
        if 'last_signs' in state:
            stopped_clear = not state['last_signs'].any()
        else:
            stopped_clear = not (np.asarray(s).astype(np.int64) % 2 * faces).any()
        state['stopped_clear'] = stopped_clear
        if stopped_clear and resid.any():
            d = np.nonzero(resid)[0]
            fail('cleared_automaton_leaves_zero_face_syndrome',
                 f'the automaton stopped after {state["steps"]} sweep steps with no tracked '
                 f'excitation left, but error + returned correction violates faces '
                 f'{[tuple(code.stabilizer_coordinates[i]) for i in d[:4]]}')
    return state, tie['n'], not resid.any()


def automaton_case(case, fail):
    cls, size = case['cls'], tuple(case['size'])
    code, dec = build(cls, size, seed=case.get('seed', 0),
                      max_budget=case.get('budget', 32))
    n = code.n
    nt = False
    evals = 0
    terminated = 0
    rng = np.random.default_rng(case.get('rseed', 0))
    errs = []
    if case['errors'] == 'weight12':
        qs = list(range(n))
        pairs = list(itertools.combinations(qs, 2))
        lo, hi = case.get('lo', 0), case.get('hi', len(qs) + len(pairs))
        allc = [(q,) for q in qs] + pairs
        for sup in allc[lo:hi]:
            e = np.zeros(2 * n, dtype=np.uint8)
            for q in sup:
                e[n + q] = 1
            errs.append(e)
    else:
        for j in range(case['n_errors']):
            e = np.zeros(2 * n, dtype=np.uint8)
            e[n:] = (rng.random(n) < case['rate']).astype(np.uint8)
            errs.append(e)
    before = len(errs)
    last_sweep = [0]
    for e in errs:
        nf = [0]

        def fail2(rel, detail, _e=e):
            f = fail(rel, f'Z error on qubits {np.nonzero(_e[n:])[0].tolist()}: ' + detail)
            nf[0] += 1
            return f
        state, ties, cleared = run_decode(code, dec, e, fail2)
        evals += max(1, state['steps'])
        terminated += cleared
        if DECODER_FOR[cls] == 'SweepDecoder3D' and state.get('stopped_clear') and \
                state['steps'] == case.get('budget', 32) * max(size):
            last_sweep[0] += 1
        if state['steps'] >= 2 and ties > 0:
            nt = True
        if nf[0]:
            break
    return evals, nt, terminated, before, last_sweep[0]


class _Fail:
    def __init__(self):
        self.items = []

    def __call__(self, rel, detail):
        f = {'relation': rel, 'detail': detail, 'sig': {}}
        if len(self.items) < 4:
            self.items.append(f)
        return f


def eval_case(case):
    fail = _Fail()
    labels = [case['kind'], case['cls']]
    nt_keys = []
    nt = False
    if case['kind'] == 'geometry':
        evals, nt_keys = geometry_case(case, fail)
    else:
        evals, nt, terminated, total, last_sweep = automaton_case(case, fail)
        if last_sweep:
            labels.append('cleared-on-last-permitted-sweep')
        labels.append('cleared-all' if terminated == total else 'some-not-cleared')
        labels.append(case['errors'])
    for f in fail.items:
        f['sig'].update({'decoder': DECODER_FOR[case['cls']], 'class': case['cls']})
        f['detail'] = f"{DECODER_FOR[case['cls']]} on {case['cls']}{tuple(case['size'])}: " + f['detail']
    return {'fails': fail.items, 'nontrivial': nt, 'nontrivial_keys': nt_keys,
            'labels': labels, 'evals': max(1, evals)}


def case_sig(case):
    return {'class': case.get('cls'), 'decoder': DECODER_FOR.get(case.get('cls'))}


@st.composite
def random_runs(draw, max_L=4, n_errors=6):
    cls = draw(st.sampled_from(list(DECODER_FOR)))
    pool = [s for s in domain.sizes(cls, max_L) if domain.n_estimate(cls, s) <= 260]
    size = draw(st.sampled_from(pool))
    return {'kind': 'automaton', 'cls': cls, 'size': list(size), 'errors': 'random',
            'rate': draw(st.sampled_from([0.02, 0.05, 0.1, 0.2])),
            'n_errors': n_errors, 'seed': draw(st.integers(0, 4)),
            'budget': draw(st.sampled_from([1, 2, 3, 4, 32])),
            'rseed': draw(st.integers(0, 2**30))}


def run(ctx):
    quick = ctx.tier == 'quick'
    top = 4 if quick else 5
    cases = []
    for cls in DECODER_FOR:
        # incl. the thin open lattices (a side of length 1: no vertex
        # generators at all, a face is generator number 0)
        for size in domain.sizes(cls, top, thin=True):
            cases.append({'kind': 'geometry', 'cls': cls, 'size': list(size)})
    # weight <= 2 Z errors, exhaustively, on small sizes
    small = {'Toric3DCode': [(2, 2, 2), (3, 3, 3), (2, 3, 2)] if quick else
             [(2, 2, 2), (3, 3, 3), (2, 3, 2), (3, 2, 4), (3, 3, 2)],
             'Planar3DCode': [(2, 2, 2), (3, 3, 3), (2, 3, 3)],
             'RotatedPlanar3DCode': [(2, 2, 2), (3, 3, 3), (3, 2, 3), (2, 3, 4)],
             'RotatedToric3DCode': [(2, 2, 2), (2, 2, 3), (4, 2, 2)]}
    for cls, sizes in small.items():
        for size in sizes:
            n = domain.n_estimate(cls, size)
            total = n + n * (n - 1) // 2
            step = 150 if quick else 400
            if quick and total > 1800:
                total = 1800
            for lo in range(0, total, step):
                cases.append({'kind': 'automaton', 'cls': cls, 'size': list(size),
                              'errors': 'weight12', 'lo': lo, 'hi': min(total, lo + step),
                              'seed': ctx.seed % 5,
                              'budget': (1, 3, 2)[(lo // step) % 3]})
    ctx.exhaustive = True
    ctx.run_cases(cases, chunk=1)
    ctx.run_hypothesis('random_runs', 240 if quick else 4000,
                       max_L=4 if quick else 5, n_errors=5 if quick else 10)
